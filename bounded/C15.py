"""Bounded stand-in for C15: (1) Variables.inline_variables against a reference tokenizer written from the property, exhaustively
over short strings of a small alphabet x small variable maps (prefix and case pairs); (2) SET/UNSET/use histories over cursors
and connections on the real stack."""
from __future__ import annotations

import itertools
import re

from .common import Tally, load_fakesnow, new_instance

ALPHABET = ["$", "A", "a", "B", "1", "_", " ", "x"]
NAMES = ["A", "AB", "A1", "B"]
VALUES = ["1", "'x'", "A"]


def reference(sql: str, variables: dict[str, str]):
    """$name (name = maximal run of word characters after a '$' that is not preceded by '$') stands for the value of the
    variable with that name, compared case-insensitively; an undefined one is an error naming it in upper case."""
    up = {k.upper(): v for k, v in variables.items()}
    out = []
    i = 0
    while i < len(sql):
        ch = sql[i]
        if ch == "$" and (i == 0 or sql[i - 1] != "$"):
            m = re.match(r"\w+", sql[i + 1:])
            if m:
                name = m.group(0)
                if name.upper() in up:
                    out.append(up[name.upper()])
                    i += 1 + len(name)
                    continue
                return ("error", "$" + name.upper())
        out.append(ch)
        i += 1
    return ("ok", "".join(out))


def run(tier="quick", seed=0, repo="/repo"):
    load_fakesnow(repo)
    import snowflake.connector.errors as sferr

    from fakesnow.variables import Variables

    maxlen = 4 if tier == "quick" else 5
    t = Tally(
        rule=f"inline_variables: all strings of length <= {maxlen} over {ALPHABET} x variable maps with <= 2 names from {NAMES} (prefix pairs A/AB/A1, stored upper-case as SET does) and values from {VALUES}, "
        "against a reference tokenizer written from the property (maximal $name, case-insensitive, undefined -> error naming it); non-trivial = the string contains a '$'; "
        "plus SET/UNSET/use histories over two cursors and two connections on the real stack",
        exhaustive=True,
    )
    maps = [{}]
    for r in (1, 2):
        for names in itertools.combinations(NAMES, r):
            for vals in itertools.product(VALUES[: 2 if tier == "quick" else 3], repeat=r):
                maps.append(dict(zip(names, vals)))
    strings = ["".join(p) for L in range(0, maxlen + 1) for p in itertools.product(ALPHABET, repeat=L)]
    strings = [s for s in strings if "$" in s or len(s) <= 1]
    fail_classes = {}
    for mp in maps:
        v = Variables()
        for k, val in mp.items():
            v._set(k, val)
        for s in strings:
            want = reference(s, mp)
            try:
                got = ("ok", v.inline_variables(s))
            except sferr.ProgrammingError as e:
                m = re.search(r"'(\$\w+)'", str(e))
                got = ("error", m.group(1) if m else str(e))
            except Exception as e:  # noqa: BLE001
                got = ("crash", f"{type(e).__name__}: {e}")
            ok = got == want
            cls = None
            if not ok:
                # classify so that a known finding names a class of inputs, not one string
                if re.search(r"\$\w+\$", s):
                    cls = "adjacent"
                elif any(a != b and b.startswith(a) for a in mp for b in mp) or any(("$" + n) in s.upper() and re.search(r"\$" + n + r"\w", s.upper()) for n in mp):
                    cls = "prefix"
                else:
                    cls = "other"
            cid = f"inline:{cls or 'ok'}:{s!r}:{sorted(mp.items())}"
            t.case(cid, (s, tuple(sorted(mp.items()))) if "$" in s else None, ok, function="fakesnow.variables.Variables.inline_variables", case={"sql": s, "variables": mp}, expected=want, actual=got, sample_every=9973)
            if len(t.failures) > 400:
                break
        if len(t.failures) > 400:
            break
    # histories on the real stack
    fs = new_instance(repo)
    c1, c2 = fs.connect("db1", "s1"), fs.connect("db1", "s1")
    a1, a2, b1 = c1.cursor(), c1.cursor(), c2.cursor()

    def val(cur, sql):
        try:
            cur.execute(sql)
            return cur.fetchall()
        except Exception as e:  # noqa: BLE001
            return f"{type(e).__name__}: {e}"

    steps = [
        (a1, "set v1 = 5", None),
        (a2, "select $v1", [(5,)]),
        (a2, "select $V1 + 1", [(6,)]),
        (b1, "select $v1", "ProgrammingError"),
        (b1, "set v1 = 'other'", None),
        (a1, "select $v1", [(5,)]),
        (b1, "select $v1", [("other",)]),
        (a1, "set v10 = 7", None),
        (a1, "select $v10", [(7,)]),
        (a1, "select $v1", [(5,)]),
        (a2, "set V1 = 6", None),
        (a1, "select $v1", [(6,)]),
        (a1, "unset v1", None),
        (a2, "select $v1", "ProgrammingError"),
        (b1, "select $v1", [("other",)]),
        (a1, "select '$' || 'x'", [("$x",)]),
        (a1, "select 'price $$5'", None),
    ]
    for k, (cur, sql, want) in enumerate(steps):
        got = val(cur, sql)
        if want is None:
            ok = not isinstance(got, str)
        elif want == "ProgrammingError":
            ok = isinstance(got, str) and got.startswith("ProgrammingError") and "does not exist" in got
        else:
            ok = got == want
        t.case(f"history:{k}:{sql}", ("history", k), ok, function="fakesnow.cursor.FakeSnowflakeCursor.execute", case={"step": k, "sql": sql}, expected=want, actual=got)
    return t.result(bound=f"strings of length <= {maxlen} over {len(ALPHABET)} symbols x {len(maps)} variable maps; {len(steps)}-step history")


def replay(case, repo):
    load_fakesnow(repo)
    import snowflake.connector.errors as sferr

    from fakesnow.variables import Variables

    c = case.get("case") or {}
    if "variables" in c:
        v = Variables()
        for k, val in c["variables"].items():
            v._set(k, val)
        want = reference(c["sql"], c["variables"])
        try:
            got = ("ok", v.inline_variables(c["sql"]))
        except sferr.ProgrammingError as e:
            m = re.search(r"'(\$\w+)'", str(e))
            got = ("error", m.group(1) if m else str(e))
        return got == want, f"got {got} want {want}"
    r = run("quick", 0, repo)
    bad = [f for f in r["failures"] if f["case_id"] == case.get("case_id")]
    return (not bad), (bad[0]["actual"] if bad else "ok")
