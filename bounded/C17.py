"""Bounded stand-in for C17: the real Snowflake connector against fakesnow's HTTP server (uvicorn in a thread) side by side with
the in-process fake: same rows, Python types, description, rowcount and errors; sessions per login; 401 for bad tokens."""
from __future__ import annotations

import datetime
import decimal
import socket
import threading
import time

from .common import Tally, load_fakesnow

SETUP = [
    "create or replace table tt (i int, n number(10,2), f float, s varchar, d date, tm time, ts timestamp_ntz, tz timestamp_tz, b boolean, v variant)",
    "insert into tt select 1, 1.25, 1.5, 'x', '2020-01-02', '01:02:03.123456', '2020-01-02 03:04:05.123456', '2020-01-02 03:04:05.000065+00:00', true, parse_json('{\"a\":1}')",
    "insert into tt select -1, -0.01, -2.5, '', '1969-12-31', '23:59:59', '1969-12-31 23:59:59.999999', '1969-12-31 23:59:59.5+00:00', false, parse_json('[1,2]')",
    "insert into tt (i) values (null)",
]
QUERIES = [
    "select i from tt order by i",
    "select n, f from tt order by i",
    "select s, d, tm from tt order by i",
    "select ts from tt order by i",
    "select tz from tt order by i",
    "select b, v from tt order by i",
    "select * from tt where false",
    "select to_timestamp_ntz('2020-01-01 00:00:00.000065') as us65, to_timestamp_ntz('2020-01-01 00:00:00.002047') as us2047, to_timestamp_ntz('1960-05-05 05:05:05.999999') as old",
    "select 12345678901234567890123456789012345678::number(38,0) as big, 0.0000000001::number(38,10) as small",
    "select count(*) c, sum(i) s from tt",
    "insert into tt (i) values (7)",
    "update tt set s = 'u' where i = 7",
    "delete from tt where i = 7",
    "create table t2 (x int)",
    "drop table t2",
    "select * from missing_table",
    "select nocol from tt",
    "use schema nos",
    "set v = 3",
    "select $v as v",
    "show tables",
]


def free_port():
    s = socket.socket()
    s.bind(("localhost", 0))
    p = s.getsockname()[1]
    s.close()
    return p


def _norm(x):
    # the tzinfo *implementation* (pytz vs zoneinfo) is not part of the value: compare instant and offset
    if isinstance(x, datetime.datetime) and x.tzinfo is not None:
        return ("aware", x.astimezone(datetime.timezone.utc).replace(tzinfo=None), x.utcoffset())
    return x


def _dec0(o):
    def f(x):
        return int(x) if isinstance(x, decimal.Decimal) and x == x.to_integral_value() else x

    return (o[0], [tuple(f(x) for x in r) for r in o[1]], None, o[3], o[4])


def outcome(cur, sql):
    try:
        cur.execute(sql)
        rows = [tuple(_norm(x) for x in r) for r in cur.fetchall()]
        return ("ok", rows, [tuple(type(x).__name__ for x in r) for r in rows], cur.rowcount, [(d.name, d.type_code, d.precision, d.scale) for d in (cur.description or [])])
    except Exception as e:  # noqa: BLE001
        return ("error", type(e).__name__, getattr(e, "errno", None), getattr(e, "sqlstate", None), getattr(e, "msg", str(e)).split("\n")[0][:80] if hasattr(e, "msg") else str(e)[:80])


def run(tier="quick", seed=0, repo="/repo"):
    load_fakesnow(repo)
    import snowflake.connector
    import uvicorn

    import fakesnow.server
    from fakesnow.instance import FakeSnow

    t = Tally(
        rule="each statement of the list (every column type incl. NULLs, pre-1970 and sub-second timestamps at the FP-sensitive microsecond values, TIME, DECIMAL at 38 digits, TIMESTAMP_TZ, empty result, DML, DDL, failing statements, "
        "SET/use of a variable, SHOW) executed through the real connector against the HTTP server and against the in-process fake on equal data: rows, Python types, rowcount, description and the error triple must be equal; "
        "plus per-login sessions (context, variables), isolated instances, and 401 for missing / unknown tokens; distinct = distinct statement / scenario",
        exhaustive=True,
    )
    port = free_port()
    server = uvicorn.Server(uvicorn.Config(fakesnow.server.app, port=port, log_level="error"))
    th = threading.Thread(target=server.run, name="Server", daemon=True)
    th.start()
    t0 = time.time()
    while not server.started and time.time() - t0 < 20:
        time.sleep(0.05)
    base = dict(user="fake", password="snow", account="fakesnow", host="localhost", port=port, protocol="http", session_parameters={"CLIENT_OUT_OF_BAND_TELEMETRY_ENABLED": False}, network_timeout=5)
    try:
        sconn = snowflake.connector.connect(**base, database="c17db", schema="s1")
        local = FakeSnow().connect("c17db", "s1")
        sc, lc = sconn.cursor(), local.cursor()
        for s in SETUP:
            sc.execute(s)
            lc.execute(s)
        for q in QUERIES:
            a, b = outcome(sconn.cursor(), q), outcome(local.cursor(), q)
            ok = a == b
            cls = "srv"
            if not ok and a[0] == b[0] == "ok" and _dec0(a) == _dec0(b):
                cls = "srv-dec0"  # only difference: integral Decimal (in-process) vs int (server) in a scale-0 column
            t.case(cls + ":" + q[:70], ("srv", q), ok, function="fakesnow.server.query_request", case={"sql": q}, expected=repr(b)[:400], actual=repr(a)[:400])
        # value sweep through the wire format: microsecond fractions (FP-sensitive), negative epochs, times, decimals
        import random

        rnd = random.Random(seed)
        nfr = 300 if tier == "quick" else 3000
        fracs = sorted({0, 1, 5, 9, 65, 999, 1001, 2047, 4095, 65535, 123456, 500000, 999990, 999999} | {rnd.randrange(1000000) for _ in range(nfr)})
        secs = ["2020-01-02 03:04:05", "1969-12-31 23:59:59", "1901-01-01 00:00:00", "2262-01-01 00:00:00", "1970-01-01 00:00:00"]
        for sql0 in ["create or replace table sweep (k int, ts timestamp_ntz, tz timestamp_tz, tm time, n number(38,6))"]:
            sc.execute(sql0)
            lc.execute(sql0)
        rows = []
        for k, fr in enumerate(fracs):
            sec = secs[k % len(secs)]
            rows.append(f"({k}, '{sec}.{fr:06d}', '{sec}.{fr:06d}+00:00', '{(k * 37) % 24:02d}:{(k * 11) % 60:02d}:{k % 60:02d}.{fr:06d}', {(-1) ** k * (k * 10 ** 20 + fr)}.{fr:06d})")
        for lo in range(0, len(rows), 200):
            ins = "insert into sweep values " + ", ".join(rows[lo : lo + 200])
            sc.execute(ins)
            lc.execute(ins)
        for col in ["ts", "tz", "tm", "n"]:
            q = f"select k, {col} from sweep order by k"
            a, b = outcome(sconn.cursor(), q), outcome(local.cursor(), q)
            ok = a == b
            bad = ""
            if not ok and a[0] == b[0] == "ok":
                bad = next((f"row {x[0]}: server {x!r} in-process {y!r}" for x, y in zip(a[1], b[1]) if x != y), f"lengths {len(a[1])} vs {len(b[1])}; rowcount {a[3]} vs {b[3]}; desc {a[4]} vs {b[4]}")
            t.case(f"sweep:{col} over {len(fracs)} microsecond fractions", ("sweep", col), ok, function="fakesnow.arrow.to_sf", case={"column": col, "fractions": len(fracs)}, expected="server rows == in-process rows", actual=bad or repr(a)[:300])
        # the struct encoder itself, exhaustively over the fraction for several epochs (thorough) / a stride (quick)
        import pyarrow as pa

        from fakesnow.arrow import timestamp_to_sf_struct

        stride = 1 if tier == "thorough" else 97
        for base_s in [0, -1, 1577934245, -2177452800, 9214646400]:
            us = [base_s * 1000000 + f for f in range(0, 1000000, stride)] + [None]
            for tz in [None, "UTC"]:
                st = timestamp_to_sf_struct(pa.array(us, type=pa.timestamp("us", tz=tz)))
                ep = st.field("epoch").to_pylist()
                frc = st.field("fraction").to_pylist()
                valid = st.is_valid().to_pylist()
                okv = valid[:-1] == [True] * (len(us) - 1) and valid[-1] is False
                badi = next((i for i in range(len(us) - 1) if ep[i] != base_s or frc[i] != (us[i] - base_s * 1000000) * 1000), None)
                okz = tz is None or set(st.field("timezone").to_pylist()[:-1]) == {1440}
                t.case(f"struct:epoch {base_s} tz {tz}", ("struct", base_s, tz), okv and badi is None and okz, function="fakesnow.arrow.timestamp_to_sf_struct", case={"epoch": base_s, "tz": tz, "stride": stride},
                       expected="epoch/fraction exact for every microsecond; NULL stays NULL; timezone 1440", actual=f"validity ok={okv}; first bad index={badi} ({None if badi is None else (ep[badi], frc[badi], us[badi])})")
        # sessions: own context and variables per login, shared data
        s2 = snowflake.connector.connect(**base, database="c17db", schema="s2x")
        c2 = s2.cursor()
        r_ctx = outcome(c2, "select current_database(), current_schema()")
        r_var = outcome(c2, "select $v")
        r_shared = outcome(c2, "select count(*) from c17db.s1.tt")
        ok = r_ctx[0] == "ok" and r_ctx[1] == [("C17DB", "S2X")] and r_var[0] == "error" and r_shared[0] == "ok" and r_shared[1] == [(3,)]
        t.case("session:own context and variables, shared data", ("session", 1), ok, function="fakesnow.server.login_request", case={}, expected="context (C17DB,S2X); $v undefined; 3 rows visible", actual=f"{r_ctx[1:2]} {r_var[:2]} {r_shared[1:2]}")
        iso = []
        for _ in range(2):
            ci = snowflake.connector.connect(**{**base, "database": "c17db", "schema": "s1", "session_parameters": {"FAKESNOW_DB_PATH": ":isolated:", "CLIENT_OUT_OF_BAND_TELEMETRY_ENABLED": False}})
            cur = ci.cursor()
            first = outcome(cur, "select count(*) from c17db.s1.tt")
            cur.execute("create table if not exists c17db.s1.only_here (x int)")
            cur.execute("insert into c17db.s1.only_here values (1)")
            cnt = outcome(cur, "select count(*) from c17db.s1.only_here")
            iso.append((first[0], cnt[1] if cnt[0] == "ok" else cnt))
        ok = all(f == "error" for f, _ in iso) and all(c == [(1,)] for _, c in iso)
        t.case("session:isolated instances do not share data", ("session", 2), ok, function="fakesnow.server.login_request", case={}, expected="each :isolated: login sees neither the shared tables nor the other isolated login's", actual=repr(iso))
        # 401s
        import gzip
        import json
        import urllib.error
        import urllib.request

        def post(path, headers):
            req = urllib.request.Request(f"http://localhost:{port}{path}", data=gzip.compress(json.dumps({"sqlText": "select 1"}).encode()), headers=headers, method="POST")
            try:
                with urllib.request.urlopen(req, timeout=5) as r:
                    return r.status, json.loads(r.read())
            except urllib.error.HTTPError as e:
                return e.code, json.loads(e.read())

        before = len(fakesnow.server.sessions)
        st1, body1 = post("/queries/v1/query-request", {})
        st2, body2 = post("/queries/v1/query-request", {"Authorization": 'Snowflake Token="not-a-token"'})
        ok = (st1, body1.get("code")) == (401, "390103") and (st2, body2.get("code")) == (401, "390104") and len(fakesnow.server.sessions) == before
        t.case("auth:missing and unknown token", ("auth",), ok, function="fakesnow.server.to_conn", case={}, expected="401/390103 and 401/390104, sessions untouched", actual=f"{st1} {body1.get('code')} / {st2} {body2.get('code')}")
    finally:
        server.should_exit = True
        th.join(timeout=10)
    return t.result(bound=f"{len(QUERIES)} statements + 4 column sweeps over {len(fracs)} microsecond fractions through server and in-process; struct encoder over 5 epochs x 2 tz x every {stride}th microsecond fraction; 2 session scenarios; 2 auth cases")


def replay(case, repo):
    r = run("quick", 0, repo)
    bad = [f for f in r["failures"] if f["case_id"] == case.get("case_id")]
    return (not bad), (bad[0]["actual"] if bad else "ok")
