"""Bounded stand-in for C14 on the real stack: the complete product of connect configurations named by the property.
Labelled bounded; never counted as proved."""
from __future__ import annotations

import itertools
import os
import shutil
import tempfile

from .common import Tally, load_fakesnow

DBS = [None, "db1", "DB1", "Db1"]
SCHEMAS = [None, "s1", "S1", "information_schema", "Main"]
PRIOR = ["none", "db", "db+schema", "db+other"]


def catalog(fs):
    cur = fs.duck_conn.cursor()
    rows = cur.execute(
        "select upper(catalog_name), upper(schema_name) from information_schema.schemata "
        "where catalog_name not in ('memory','system','temp','_fs_global') order by 1,2"
    ).fetchall()
    cur.close()
    return sorted(set(rows))


def expected(prior_cat, db, schema, cdb, csch):
    cat = set(prior_cat)
    D = db.upper() if db else db
    S = schema.upper() if schema else schema
    dbs = {c for c, _ in cat}
    if D and cdb and D not in dbs:
        cat |= {(D, "MAIN"), (D, "INFORMATION_SCHEMA"), (D, "PG_CATALOG")}
        dbs.add(D)
    if D and S and csch and D in dbs and (D, S) not in cat:
        cat.add((D, S))
    db_set = bool(D) and D in dbs
    sch_set = bool(D) and bool(S) and (D, S) in cat
    return sorted(cat), D, S, db_set, sch_set


def one(repo, db, schema, cdb, csch, storage, prior, tmp):
    load_fakesnow(repo)
    from fakesnow.instance import FakeSnow

    db_path = None
    if storage == "path":
        db_path = tempfile.mkdtemp(dir=tmp)
    # prior state is made with a separate auto-creating instance step on the same FakeSnow (same DuckDB instance)
    fs = FakeSnow(create_database_on_connect=True, create_schema_on_connect=True, db_path=db_path)
    other = None
    if prior != "none":
        pschema = {"db": None, "db+schema": "s1", "db+other": "zz"}[prior]
        other = fs.connect("db1", pschema)
        if pschema:
            other.cursor().execute(f"create table db1.{pschema}.keep (x int)")
            other.cursor().execute(f"insert into db1.{pschema}.keep values (41)")
    fs.create_database_on_connect = cdb
    fs.create_schema_on_connect = csch
    before = catalog(fs)
    other_ctx = (other.database, other.schema, other.database_set, other.schema_set) if other else None
    try:
        conn = fs.connect(db, schema)
    except Exception as e:  # noqa: BLE001
        return False, f"connect raised {type(e).__name__}: {e}"
    after = catalog(fs)
    exp_cat, D, S, db_set, sch_set = expected(before, db, schema, cdb, csch)
    if after != exp_cat:
        return False, f"catalog after {after} != expected {exp_cat}"
    if (conn.database, conn.schema) != (D, S):
        return False, f"names {(conn.database, conn.schema)} != {(D, S)}"
    if (conn.database_set, conn.schema_set) != (db_set, sch_set):
        return False, f"context flags {(conn.database_set, conn.schema_set)} != {(db_set, sch_set)}"
    if db_set:
        cur = conn.cursor()
        cur.execute("select current_database(), current_schema()")
        cd, cs = cur.fetchone()
        want_s = S if sch_set else "main"
        if (cd.upper(), cs.upper()) != (D, want_s.upper()):
            return False, f"current_database/schema {(cd, cs)} != {(D, want_s)}"
    else:
        try:
            conn.cursor().execute("create table t_needs_db (x int)")
            return False, "unqualified statement succeeded without a current database"
        except Exception as e:  # noqa: BLE001
            if getattr(e, "errno", None) != 90105:
                return False, f"expected 90105, got {type(e).__name__} {getattr(e, 'errno', None)}"
    if other is not None:
        if other_ctx != (other.database, other.schema, other.database_set, other.schema_set):
            return False, "another session's context changed"
        if prior in ("db+schema", "db+other"):
            ps = "s1" if prior == "db+schema" else "zz"
            c2 = other.cursor()
            c2.execute(f"select x from db1.{ps}.keep")
            if c2.fetchall() != [(41,)]:
                return False, "existing data disturbed"
    # a second connect with the same arguments changes nothing
    conn2 = fs.connect(db, schema)
    if catalog(fs) != after or (conn2.database_set, conn2.schema_set) != (db_set, sch_set):
        return False, "second identical connect changed the catalog or got a different context"
    if storage == "path":
        files = sorted(os.listdir(db_path))
        want = sorted({f"{c}.db" for c, _ in after})
        if [f for f in files if f.endswith(".db")] != want:
            return False, f"files {files} != {want}"
    return True, "ok"


def run(tier="quick", seed=0, repo="/repo"):
    t = Tally(
        rule="complete product: database in %s x schema in %s x create_database x create_schema x storage {memory, db_path} x prior state %s; "
        "every case is non-trivial (a connect on the real DuckDB stack with catalog, context, data and file checks); distinct = distinct configuration" % (DBS, SCHEMAS, PRIOR),
        exhaustive=True,
    )
    tmp = tempfile.mkdtemp(prefix="c14_")
    try:
        storages = ["memory", "path"]
        for db, schema, cdb, csch, storage, prior in itertools.product(DBS, SCHEMAS, [True, False], [True, False], storages, PRIOR):
            case = {"database": db, "schema": schema, "create_database": cdb, "create_schema": csch, "storage": storage, "prior": prior}
            try:
                ok, detail = one(repo, db, schema, cdb, csch, storage, prior, tmp)
            except Exception as e:  # noqa: BLE001
                ok, detail = False, f"harness: {type(e).__name__}: {e}"
            cid = f"connect:{db}:{schema}:{int(cdb)}{int(csch)}:{storage}:{prior}"
            t.case(cid, cid, ok, function="fakesnow.conn.FakeSnowflakeConnection.__init__", case=case, expected="as C14 states", actual=detail, sample_every=211)
    finally:
        shutil.rmtree(tmp, ignore_errors=True)
    return t.result(bound="the full product listed in rule (%d configurations)" % (len(DBS) * len(SCHEMAS) * 4 * 2 * len(PRIOR)))


def replay(case, repo):
    c = case.get("case") or {}
    tmp = tempfile.mkdtemp(prefix="c14_")
    try:
        return one(repo, c["database"], c["schema"], c["create_database"], c["create_schema"], c["storage"], c["prior"], tmp)
    finally:
        shutil.rmtree(tmp, ignore_errors=True)
