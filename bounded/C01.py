"""Bounded stand-in for C01 on the real stack: values of every supported column type, at the edges of the type, written by
SQL literal / bound parameter / INSERT..SELECT / CTAS / CLONE / write_pandas, read back equal and in the connector's Python type."""
from __future__ import annotations

import datetime
import decimal
import json

from .common import Tally, load_fakesnow, new_instance

D = decimal.Decimal
UTC = datetime.timezone.utc
# (column type, [(sql literal, python value)], python type)
TYPES = [
    ("boolean", [("true", True), ("false", False)], bool),
    ("int", [("0", 0), ("-1", -1), ("9223372036854775807", 2**63 - 1), ("-9223372036854775808", -(2**63))], int),
    ("bigint", [("42", 42)], int),
    ("smallint", [("32767", 32767)], int),
    ("number(10,2)", [("12345678.91", D("12345678.91")), ("-0.01", D("-0.01")), ("0", D("0.00"))], D),
    ("number(38,10)", [("1234567890123456789012345678.0123456789", D("1234567890123456789012345678.0123456789"))], D),
    ("number(5,0)", [("99999", 99999)], int),
    ("float", [("1.5", 1.5), ("-0.0", -0.0), ("1e308", 1e308), ("5e-324", 5e-324), ("0.1", 0.1)], float),
    ("double", [("2.5", 2.5)], float),
    ("varchar", [("''", ""), ("'x'", "x"), ("'it''s'", "it's"), ("'é中\U0001f600'", "é中\U0001f600"), ("'line\nbreak'", "line\nbreak")], str),
    ("varchar(5)", [("'abcde'", "abcde")], str),
    ("text", [("'t'", "t")], str),
    ("date", [("'1969-12-31'", datetime.date(1969, 12, 31)), ("'2024-02-29'", datetime.date(2024, 2, 29)), ("'0001-01-01'", datetime.date(1, 1, 1))], datetime.date),
    ("time", [("'00:00:00'", datetime.time(0, 0, 0)), ("'23:59:59'", datetime.time(23, 59, 59))], datetime.time),
    ("timestamp_ntz", [("'1969-12-31 23:59:59.999999'", datetime.datetime(1969, 12, 31, 23, 59, 59, 999999)), ("'2020-01-02 03:04:05.000001'", datetime.datetime(2020, 1, 2, 3, 4, 5, 1))], datetime.datetime),
    ("timestamp_tz", [("'2020-01-02 03:04:05+00:00'", datetime.datetime(2020, 1, 2, 3, 4, 5, tzinfo=UTC)), ("'1969-12-31 23:00:00+00:00'", datetime.datetime(1969, 12, 31, 23, 0, 0, tzinfo=UTC))], datetime.datetime),
    ("binary", [("'ab'::binary", b"ab")], (bytes, bytearray)),
    ("variant", [("parse_json('{\"a\": [1, {\"b\": null}], \"s\": \"x\"}')", {"a": [1, {"b": None}], "s": "x"}), ("parse_json('[]')", []), ("parse_json('3')", 3)], "json"),
    ("object", [("parse_json('{\"k\": 1}')", {"k": 1})], "json"),
    ("array", [("parse_json('[1, 2]')", [1, 2])], "json"),
]


def same(pytype, got, want):
    if want is None:
        return got is None
    if pytype == "json":
        return isinstance(got, str) and json.loads(got) == want
    if pytype is int:
        return isinstance(got, int) and not isinstance(got, bool) and got == want
    if pytype is float:
        return isinstance(got, float) and got == want
    if pytype is datetime.datetime:
        return isinstance(got, datetime.datetime) and got == want and (got.tzinfo is None) == (want.tzinfo is None) and (got.tzinfo is None or got.utcoffset() == datetime.timedelta(0))
    return isinstance(got, pytype) and got == want


def run(tier="quick", seed=0, repo="/repo"):
    load_fakesnow(repo)
    import pandas as pd

    import fakesnow

    t = Tally(
        rule="each (column type, edge value) of the list x ingestion path {SQL literal, bound parameter (pyformat), INSERT..SELECT, CREATE TABLE AS, CLONE} x NULL placement (a NULL row before and after): "
        "the value read back == the value written, in the connector's Python type, every written row exactly once, an unrelated table untouched; plus write_pandas frames (ints, strings, dicts with different keys, lists, None); "
        "distinct = distinct (type, value, path)",
        exhaustive=True,
    )
    fs = new_instance(repo)
    conn = fs.connect("db1", "s1")
    cur = conn.cursor()
    cur.execute("create table keep (k int)")
    cur.execute("insert into keep values (7)")
    n = 0
    for ctype, vals, pytype in TYPES:
        for lit, want in vals:
            n += 1
            base = f"t{n}"
            for path in ("literal", "param", "insert_select", "ctas", "clone"):
                if path == "param" and (pytype == "json" or isinstance(want, (bytes, bytearray))):
                    continue
                tbl = base if path in ("literal", "param") else f"{base}_{path}"
                try:
                    if path == "literal":
                        cur.execute(f"create or replace table {tbl} (id int, v {ctype})")
                        cur.execute(f"insert into {tbl} values (1, null), (2, {lit}), (3, null)")
                    elif path == "param":
                        cur.execute(f"create or replace table {tbl} (id int, v {ctype})")
                        cur.execute(f"insert into {tbl} values (1, null), (2, %s), (3, null)", (want,))
                    elif path == "insert_select":
                        cur.execute(f"create or replace table {tbl} (id int, v {ctype})")
                        cur.execute(f"insert into {tbl} select id, v from {base}")
                    elif path == "ctas":
                        cur.execute(f"create or replace table {tbl} as select id, v from {base}")
                    else:
                        cur.execute(f"create or replace table {tbl} clone {base}")
                    cur.execute(f"select id, v from {tbl} order by id")
                    rows = cur.fetchall()
                    ok = len(rows) == 3 and rows[0] == (1, None) and rows[2] == (3, None) and rows[1][0] == 2 and same(pytype, rows[1][1], want)
                    detail = repr(rows[1][1]) + " " + type(rows[1][1]).__name__ if len(rows) == 3 else repr(rows)
                    cur.execute("select k from keep")
                    if cur.fetchall() != [(7,)]:
                        ok, detail = False, "unrelated table changed"
                except Exception as e:  # noqa: BLE001
                    ok, detail = False, f"{type(e).__name__}: {str(e)[:160]}"
                t.case(f"rt:{ctype}:{lit[:40]}:{path}", (ctype, lit, path), ok, function="fakesnow.transforms", case={"type": ctype, "literal": lit, "path": path}, expected=f"{want!r} ({pytype if isinstance(pytype, str) else getattr(pytype, '__name__', pytype)})", actual=detail, sample_every=23)
    # write_pandas
    frames = {
        "ints_strs": (pd.DataFrame({"ID": [1, 2, 3], "NAME": ["a", None, "c"]}), "id number, name varchar", [(1, "a"), (2, None), (3, "c")]),
        "dict_diff_keys": (pd.DataFrame({"ID": [1, 2], "V": [{"a": 1}, {"b": [1, 2], "c": None}]}), "id number, v variant", [(1, {"a": 1}), (2, {"b": [1, 2], "c": None})]),
        "first_null_then_dict": (pd.DataFrame({"ID": [1, 2, 3], "V": [None, {"k": "x"}, {"k": 2}]}), "id number, v variant", [(1, None), (2, {"k": "x"}), (3, {"k": 2})]),
        "lists": (pd.DataFrame({"ID": [1, 2], "V": [[1, 2], ["a"]]}), "id number, v array", [(1, [1, 2]), (2, ["a"])]),
        "str_then_list": (pd.DataFrame({"ID": [1, 2], "V": ["plain", [1, 2]]}), "id number, v varchar", [(1, "plain"), (2, [1, 2])]),
        "quoted_names": (pd.DataFrame({"ID": [1], "Mixed Case": ["q"]}), 'id number, "Mixed Case" varchar', [(1, "q")]),
    }
    for name, (df, ddl, want) in frames.items():
        try:
            cur.execute(f"create or replace table wp_{name} ({ddl})")
            ok_, nchunks, nrows, _ = fakesnow.fakes.write_pandas(conn, df, f"WP_{name.upper()}")
            cur.execute(f"select * from wp_{name} order by 1")
            rows = cur.fetchall()

            def norm(v):
                if isinstance(v, str) and v[:1] in "[{":
                    try:
                        return json.loads(v)
                    except ValueError:
                        return v
                return v

            got = [(r[0], norm(r[1])) for r in rows]
            ok = ok_ and nrows == len(want) and got == want
            detail = repr(got)
        except Exception as e:  # noqa: BLE001
            ok, detail = False, f"{type(e).__name__}: {str(e)[:160]}"
        t.case(f"write_pandas:{name}", ("wp", name), ok, function="fakesnow.pandas_tools._insert_df", case={"frame": name}, expected=repr(want), actual=detail)
    return t.result(bound=f"{sum(len(v) for _, v, _ in TYPES)} (type, value) pairs x 5 ingestion paths; {len(frames)} write_pandas frames")


def replay(case, repo):
    r = run("quick", 0, repo)
    bad = [f for f in r["failures"] if f["case_id"] == case.get("case_id")]
    return (not bad), (bad[0]["actual"] if bad else "ok")
