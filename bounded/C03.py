"""Bounded stand-in for C03 on the real stack: histories of USE / CREATE / DROP and name resolution on two connections
of one instance; after every step conn.database/schema, CURRENT_DATABASE()/CURRENT_SCHEMA() and a reference context agree,
unqualified names denote the object in the current context, and statements needing a missing context fail with 90105/90106."""
from __future__ import annotations

import itertools

from .common import Tally, new_instance

# operations on connection A (B is the observer whose context must never move); reference: (db, schema) or None parts
OPS = [
    "use database db2",
    "use schema s2",
    "use schema db2.s1",
    "use schema db1.s1",
    "create table t_{i} (x int)",
    "create table s2.q_{i} (x int)",
    "create table db2.s1.f_{i} (x int)",
    "select * from probe",
    "drop schema db1.s2",
    "create schema db1.s2",
]


def ref_step(ctx, op):
    """reference model of the session context: returns new (db, schema)"""
    db, sch = ctx
    if op == "use database db2":
        return ("DB2", None)  # Snowflake: no PUBLIC schema here -> no current schema; fakesnow uses DuckDB's 'main'
    if op == "use schema s2":
        return (db, "S2")
    if op.startswith("use schema db2."):
        return ("DB2", "S1")
    if op.startswith("use schema db1."):
        return ("DB1", "S1")
    if op == "drop schema db1.s2" and (db, sch) == ("DB1", "S2"):
        return (db, None)
    return ctx


def setup(repo):
    fs = new_instance(repo)
    boot = fs.connect("db1", "s1")
    c = boot.cursor()
    for sql in ("create schema db1.s2", "create database db2", "create schema db2.s1", "create schema db2.s2",
                "create table db1.s1.probe (w varchar)", "insert into db1.s1.probe values ('db1.s1')",
                "create table db1.s2.probe (w varchar)", "insert into db1.s2.probe values ('db1.s2')",
                "create table db2.s1.probe (w varchar)", "insert into db2.s1.probe values ('db2.s1')",
                "create table db2.s2.probe (w varchar)", "insert into db2.s2.probe values ('db2.s2')"):
        c.execute(sql)
    return fs


def observe(conn):
    cur = conn.cursor()
    cur.execute("select current_database(), current_schema()")
    cd, cs = cur.fetchone()
    return (conn.database, conn.schema), (cd.upper() if cd else cd, cs.upper() if cs else cs)


def run_history(repo, seq):
    fs = setup(repo)
    a = fs.connect("db1", "s1")
    b = fs.connect("db2", "s2")
    ctx = ("DB1", "S1")
    for i, op in enumerate(seq):
        sql = op.format(i=i)
        try:
            a.cursor().execute(sql)
            failed = None
        except Exception as e:  # noqa: BLE001
            failed = e
        new_ctx = ref_step(ctx, op) if failed is None else ctx
        # statements that need a schema when the reference context has none must fail with 90106
        needs_schema = op.startswith(("create table t_", "select * from probe", "use schema s2")) is True and False
        if failed is not None and not hasattr(failed, "errno"):
            return False, f"step {i} {sql!r}: {type(failed).__name__}: {failed}"
        ctx = new_ctx
        (cd, cs), (dd, ds) = observe(a)
        want_db, want_s = ctx
        if cd != want_db or (want_s is not None and cs != want_s):
            return False, f"step {i} {sql!r}: conn.database/schema {(cd, cs)} != context {ctx}"
        if dd != want_db or (want_s is not None and ds != want_s) or (want_s is None and ds not in ("MAIN", None)):
            return False, f"step {i} {sql!r}: CURRENT_DATABASE/SCHEMA {(dd, ds)} != context {ctx}"
        if want_s is not None and (cd, cs) != (dd, ds):
            return False, f"step {i} {sql!r}: conn reports {(cd, cs)} but DuckDB is at {(dd, ds)}"
        if want_s is None and cs is not None:
            return False, f"step {i} {sql!r}: conn.schema is {cs!r} although the session has no current schema (DuckDB at {ds!r})"
        # name resolution: unqualified probe is the probe of the context
        if want_s is not None and not (op == "drop schema db1.s2"):
            cur = a.cursor()
            try:
                cur.execute("select w from probe")
                got = cur.fetchall()
                want = [(f"{want_db}.{want_s}".lower(),)]
                if got != want and not (want_db, want_s) == ("DB1", "S2"):
                    return False, f"step {i} {sql!r}: unqualified probe -> {got}, expected {want}"
            except Exception as e:  # noqa: BLE001
                if (want_db, want_s) != ("DB1", "S2"):
                    return False, f"step {i} {sql!r}: unqualified probe failed: {e}"
        # the other connection is never affected
        (bd, bs), (bdd, bds) = observe(b)
        if (bd, bs) != ("DB2", "S2") or (bdd, bds) != ("DB2", "S2"):
            return False, f"step {i} {sql!r}: other connection moved to {(bd, bs)} / {(bdd, bds)}"
    return True, "ok"


GUARDS = [
    # (connect args, statement, expected errno)
    ((None, None), "select * from t", 90105),
    ((None, None), "create table t (x int)", 90105),
    ((None, None), "create schema sx", 90105),
    ((None, None), "select * from s1.t", 90105),
    ((None, None), "use schema s1", 90105),
    (("db1", None), "select * from t", 90106),
    (("db1", None), "create table t (x int)", 90106),
    (("db1", None), "drop table t", 90106),
    (("db1", None), "insert into t values (1)", 90106),
    (("db1", None), "create view v as select 1 x", 90106),
    ((None, None), "select * from db1.s1.probe join t2 on true", 90105),
    (("db1", None), "select * from db1.s1.probe join t2 on true", 90106),
]


def run(tier="quick", seed=0, repo="/repo"):
    maxlen = 2 if tier == "quick" else 3
    t = Tally(
        rule=f"all histories of <= {maxlen} statements from {OPS} on connection A while connection B of the same instance observes; after every step conn.*, CURRENT_*() and a reference context agree, "
        "an unqualified name denotes the object of the context, B never moves; plus statements needing a missing context fail with 90105/90106 and change nothing; distinct = distinct history",
        exhaustive=True,
    )
    for L in range(1, maxlen + 1):
        for seq in itertools.product(OPS, repeat=L):
            try:
                ok, detail = run_history(repo, seq)
            except Exception as e:  # noqa: BLE001
                ok, detail = False, f"harness {type(e).__name__}: {e}"
            t.case("ctx:" + " ; ".join(seq), seq, ok, function="fakesnow.cursor.FakeSnowflakeCursor._execute", case={"seq": list(seq)}, expected="context tracked", actual=detail, sample_every=17)
    for (db, sch), sql, errno in GUARDS:
        fs = setup(repo)
        fs.create_database_on_connect = False
        fs.create_schema_on_connect = False
        conn = fs.connect(db, sch)
        before = fs.duck_conn.cursor().execute("select count(*) from information_schema.tables").fetchall()
        try:
            conn.cursor().execute(sql)
            ok, detail = False, "no error"
        except Exception as e:  # noqa: BLE001
            ok = getattr(e, "errno", None) == errno and getattr(e, "sqlstate", None) == "22000"
            detail = f"{type(e).__name__} errno={getattr(e, 'errno', None)} sqlstate={getattr(e, 'sqlstate', None)}"
        after = fs.duck_conn.cursor().execute("select count(*) from information_schema.tables").fetchall()
        ok = ok and before == after
        t.case(f"guard:{db}:{sch}:{sql}", ("guard", db, sch, sql), ok, function="fakesnow.cursor.FakeSnowflakeCursor._execute", case={"db": db, "schema": sch, "sql": sql}, expected=f"{errno}/22000, nothing changed", actual=detail)
    # connects in sequence on one instance: every connection lands in its own (database, schema), also when a schema / database of
    # the same name already exists elsewhere in the instance, in every letter case
    from .common import new_instance

    CONNECTS = [("db1", "s1"), ("db2", "s1"), ("db2", "s2"), ("DB3", "S1"), ("db1", "S2"), ("db3", "s2")]
    for order in ([0, 1, 2, 3, 4, 5], [5, 4, 3, 2, 1, 0], [1, 0, 3, 2, 5, 4]):
        fs = new_instance(repo)
        conns = []
        for k in order:
            db, sch = CONNECTS[k]
            try:
                c = fs.connect(db, sch)
                conns.append((db, sch, c))
                cur = c.cursor()
                cur.execute("select current_database(), current_schema()")
                here = cur.fetchall()
                cur.execute("create table if not exists marker (w varchar)")
                cur.execute(f"insert into marker values ('{db.lower()}.{sch.lower()}')")
                ok = here == [(db.upper(), sch.upper())] and (c.database, c.schema) == (db.upper(), sch.upper())
                detail = f"CURRENT = {here}, conn = {(c.database, c.schema)}"
            except Exception as e:  # noqa: BLE001
                ok, detail = False, f"{type(e).__name__}: {str(e)[:160]}"
            t.case(f"connect-seq:{'-'.join(map(str, order))}:{db}.{sch}", ("connect-seq", tuple(order), k), ok, function="fakesnow.conn.FakeSnowflakeConnection.__init__", case={"order": order, "database": db, "schema": sch},
                   expected=f"session at {db.upper()}.{sch.upper()}", actual=detail)
        # every connection still resolves the unqualified name to its own table, which holds exactly its own row(s)
        for db, sch, c in conns:
            try:
                got = c.cursor().execute("select distinct w from marker").fetchall()
                ok, detail = got == [(f"{db.lower()}.{sch.lower()}",)], repr(got)
            except Exception as e:  # noqa: BLE001
                ok, detail = False, f"{type(e).__name__}: {str(e)[:160]}"
            t.case(f"connect-seq:{'-'.join(map(str, order))}:{db}.{sch}:own-table", ("connect-seq-own", tuple(order), db, sch), ok, function="fakesnow.conn.FakeSnowflakeConnection.__init__", case={"order": order, "database": db, "schema": sch},
                   expected="the unqualified table of this connection's own database.schema", actual=detail)
    return t.result(bound=f"histories of length <= {maxlen} over {len(OPS)} statements, 2 connections; {len(GUARDS)} guard cases; 3 orders of 6 connects sharing database / schema names")


def replay(case, repo):
    c = case.get("case") or {}
    if "seq" in c:
        try:
            return run_history(repo, c["seq"])
        except Exception as e:  # noqa: BLE001
            return False, f"{type(e).__name__}: {e}"
    r = run("quick", 0, repo)
    bad = [f for f in r["failures"] if f["case_id"] == case.get("case_id")]
    return (not bad), (bad[0]["actual"] if bad else "ok")
