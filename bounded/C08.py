"""Bounded stand-in for C08 on the real stack: adversarial parameter values x placeholder positions x paramstyles:
the value read back equals the value bound, the statement's structure never changes, paramstyle is the one at connect."""
from __future__ import annotations

import datetime
import decimal

from .common import Tally, new_instance

STRS = ["", "plain", "it's", "a''b", 'dq"x', "back\\slash", "trail\\", "new\nline", "tab\t", "100%", "%s", "%(a)s", "$var", "$1", "?", "q?;", "semi; drop table t", "-- c", "/* c */", "x' or '1'='1",
        "é中\U0001f600", "nul\\0", "{}", "${x}", "'; select 1; --"]
OTHERS = [0, -1, 2**63 - 1, 1.5, -0.25, True, False, None, decimal.Decimal("12345678901234567890.123"), datetime.date(1969, 12, 31), datetime.datetime(2020, 2, 29, 23, 59, 59, 123456), datetime.time(1, 2, 3)]


def eq(a, b):
    if isinstance(a, float) or isinstance(b, float):
        return a == b
    if isinstance(b, bool) or isinstance(a, bool):
        return bool(a) == bool(b) and a is not None and b is not None
    if isinstance(b, decimal.Decimal) or isinstance(a, decimal.Decimal):
        return a is not None and b is not None and decimal.Decimal(str(a)) == decimal.Decimal(str(b))
    return a == b


def run(tier="quick", seed=0, repo="/repo"):
    import snowflake.connector

    t = Tally(
        rule="each value of the adversarial string list and of the typed list x {pyformat seq, pyformat dict, format, qmark} x {select-list literal, WHERE comparison, INSERT VALUES + read back, executemany} "
        "on the real stack: value read back == value bound, exactly one row / statement, table count unchanged otherwise; plus the paramstyle-at-connect snapshot; distinct = distinct (value, style, position)",
        exhaustive=True,
    )
    saved = snowflake.connector.paramstyle
    try:
        for style in ("pyformat", "pyformat-dict", "format", "qmark"):
            snowflake.connector.paramstyle = "qmark" if style == "qmark" else ("format" if style == "format" else "pyformat")
            fs = new_instance(repo)
            conn = fs.connect("db1", "s1")
            cur = conn.cursor()
            cur.execute("create table t (id int, s varchar)")
            ph = {"pyformat": "%s", "pyformat-dict": "%(a)s", "format": "%s", "qmark": "?"}[style]
            mk = (lambda v: {"a": v}) if style == "pyformat-dict" else (lambda v: (v,))
            vals = STRS + ([] if tier == "quick" and style != "pyformat" else OTHERS)
            for i, v in enumerate(vals):
                cid = f"{style}:{type(v).__name__}:{v!r}"
                # 1. select-list
                try:
                    cur.execute(f"select {ph} as v", mk(v))
                    got = cur.fetchall()
                    want = v
                    if style != "qmark" and isinstance(v, (datetime.date, datetime.time)):
                        want = str(v)  # client-side binding writes a quoted literal: its value is that text (as in Snowflake)
                    ok = len(got) == 1 and len(got[0]) == 1 and eq(got[0][0], want)
                    detail = repr(got)
                except Exception as e:  # noqa: BLE001
                    ok, detail = False, f"{type(e).__name__}: {str(e)[:150]}"
                t.case("select:" + cid, ("select", style, repr(v)), ok, function="fakesnow.cursor.FakeSnowflakeCursor._rewrite_with_params", case={"style": style, "value": repr(v), "pos": "select"}, expected=repr(v), actual=detail, sample_every=53)
                if not isinstance(v, str):
                    continue
                # 2. insert + where + read back; table has exactly the rows inserted
                try:
                    cur.execute(f"insert into t values ({i}, {ph})", mk(v))
                    cur.execute(f"select id from t where s = {ph}", mk(v))
                    ids = sorted(r[0] for r in cur.fetchall())
                    cur.execute("select s from t where id = " + str(i))
                    back = cur.fetchall()
                    cur.execute("select count(*) from t")
                    n = cur.fetchone()[0]
                    dup = [j for j, w in enumerate(vals[: i + 1]) if isinstance(w, str) and w == v]
                    ok = back == [(v,)] and ids == dup and n == sum(1 for w in vals[: i + 1] if isinstance(w, str))
                    detail = f"back={back} ids={ids} n={n}"
                except Exception as e:  # noqa: BLE001
                    ok, detail = False, f"{type(e).__name__}: {str(e)[:150]}"
                t.case("insert:" + cid, ("insert", style, repr(v)), ok, function="fakesnow.cursor.FakeSnowflakeCursor._rewrite_with_params", case={"style": style, "value": repr(v), "pos": "insert/where"}, expected="read back unchanged; structure intact", actual=detail, sample_every=53)
            # executemany: once per parameter set, in order
            if style != "pyformat-dict":
                cur.execute("create table m (k int, s varchar)")
                sets = [(j, s) for j, s in enumerate(STRS[:8])]
                try:
                    cur.executemany(f"insert into m values ({ph}, {ph})", sets)
                    cur.execute("select k, s from m order by k")
                    ok = cur.fetchall() == sets
                    detail = "ok" if ok else "rows differ"
                except Exception as e:  # noqa: BLE001
                    ok, detail = False, f"{type(e).__name__}: {str(e)[:150]}"
                t.case(f"executemany:{style}", ("executemany", style), ok, function="fakesnow.cursor.FakeSnowflakeCursor.executemany", case={"style": style}, expected="one row per set, in order", actual=detail)
            conn.close()
        # values that compare equal in Python but are different SQL values (1 / True / 1.0, 0 / False / 0.0), bound side by side, one after
        # the other on a re-used cursor, and across the rows of one executemany: each must have the effect of its own literal
        snowflake.connector.paramstyle = "pyformat"
        LIT = lambda v: ("TRUE" if v else "FALSE") if isinstance(v, bool) else repr(v)  # noqa: E731
        twins = [(1, True), (True, 1), (0, False), (False, 0), (1, 1.0), (1.0, 1), (0.0, False), (True, 1.0)]

        def typed(rows):
            return [tuple((type(x).__name__, x) for x in r) for r in rows]

        for a, b in twins:
            label = f"{type(a).__name__}:{a!r},{type(b).__name__}:{b!r}"
            for mode in ("one-set", "reused-cursor", "executemany"):
                fs = new_instance(repo)
                conn = fs.connect("db1", "s1")
                cur, ref = conn.cursor(), conn.cursor()
                try:
                    if mode == "one-set":
                        cur.execute("select %s as a, %s as b", (a, b))
                        got = typed(cur.fetchall())
                        ref.execute(f"select {LIT(a)} as a, {LIT(b)} as b")
                        want = typed(ref.fetchall())
                    elif mode == "reused-cursor":
                        got = []
                        for v in (a, b, a):
                            cur.execute("select %s as v", (v,))
                            got += typed(cur.fetchall())
                        want = []
                        for v in (a, b, a):
                            ref.execute(f"select {LIT(v)} as v")
                            want += typed(ref.fetchall())
                    else:
                        cur.execute("create table tw (k int, s varchar)")
                        cur.execute("create table tw_ref (k int, s varchar)")
                        cur.executemany("insert into tw values (%s, %s)", [(0, a), (1, b), (2, a)])
                        for k, v in enumerate((a, b, a)):
                            ref.execute(f"insert into tw_ref values ({k}, {LIT(v)})")
                        cur.execute("select k, s from tw order by k")
                        got = typed(cur.fetchall())
                        ref.execute("select k, s from tw_ref order by k")
                        want = typed(ref.fetchall())
                    ok, detail = got == want, repr(got)
                except Exception as e:  # noqa: BLE001
                    ok, detail, want = False, f"{type(e).__name__}: {str(e)[:150]}", "the effect of the literals"
                t.case(f"equal-twins:{mode}:{label}", ("twins", mode, label), ok, function="fakesnow.cursor.FakeSnowflakeCursor._rewrite_with_params", case={"mode": mode, "values": [repr(a), repr(b)]}, expected=repr(want), actual=detail)
                conn.close()
        # paramstyle is the one configured when the connection was made
        snowflake.connector.paramstyle = "pyformat"
        fs = new_instance(repo)
        conn = fs.connect("db1", "s1")
        snowflake.connector.paramstyle = "qmark"
        try:
            cur = conn.cursor()
            cur.execute("select %s as v", ("late",))
            ok = cur.fetchall() == [("late",)]
            detail = "ok" if ok else "wrong rows"
        except Exception as e:  # noqa: BLE001
            ok, detail = False, f"{type(e).__name__}: {str(e)[:150]}"
        t.case("snapshot:pyformat->qmark:new-cursor", ("snapshot", 1), ok, function="fakesnow.cursor.FakeSnowflakeCursor._rewrite_with_params", case={"connect": "pyformat", "later": "qmark"}, expected="pyformat still in force", actual=detail)
    finally:
        snowflake.connector.paramstyle = saved
    return t.result(bound=f"8 pairs of ==-equal values of different type x 3 binding modes; {len(STRS)} adversarial strings + {len(OTHERS)} typed values x 4 binding styles x 2 positions")


def replay(case, repo):
    r = run("thorough", 0, repo)
    bad = [f for f in r["failures"] if f["case_id"] == case.get("case_id")]
    return (not bad), (bad[0]["actual"] if bad else "ok")
