"""Bounded stand-in for C16 on the real stack: execute_string(text) against executing the statements one by one, and
nop_regexes against the same run without the option."""
from __future__ import annotations

import itertools

from .common import Tally, new_instance

STMTS = [
    "create or replace table t (s varchar)",
    "insert into t values ('a;b')",
    "insert into t values ('it''s')",
    "insert into t values ('back\\\\slash')",
    "insert into t values ('-- not a comment')",
    "insert into t values ('/* nor this */')",
    "insert into t values ($$dollar ; quoted$$)",
    "insert into t values ($$dollar -- not a comment\nsecond line$$)",
    "insert into t values ($$d /* nor this */ e // f$$)",
    "insert into t values ('é中\U0001f600')",
    "select count(*) from t",
    "select s from t order by s",
    "select * from missing_table",
]
FILLERS = ["", " ", "\n", "-- a comment\n", "/* block ; comment */", ";", " ; ;"]


def outcome(cur_or_exc):
    if isinstance(cur_or_exc, Exception):
        return ("error", type(cur_or_exc).__name__, getattr(cur_or_exc, "errno", None))
    rows = cur_or_exc.fetchall()
    return ("ok", rows, cur_or_exc.rowcount, [d.name for d in cur_or_exc.description])


def table_state(conn):
    c = conn.cursor()
    try:
        c.execute("select s from t order by s")
        return c.fetchall()
    except Exception:  # noqa: BLE001
        return None


def run(tier="quick", seed=0, repo="/repo"):
    import snowflake.connector.cursor as sfc

    t = Tally(
        rule="scripts = all sequences of <= N statements from the list (literals containing ; quotes backslashes comment markers $$ unicode, a failing statement) joined with each filler "
        "(empty, whitespace, line comment, block comment containing ';', extra semicolons): execute_string(script) must equal executing the statements one by one on fresh cursors "
        "(per-statement rows, rowcount, column names; stop at the first failure with earlier ones applied; table state); plus nop_regexes pattern sets x statements that do / do not match, "
        "compared with the same connection without the option; distinct = distinct (script, filler) / (patterns, statement)",
        exhaustive=True,
    )
    n = 2 if tier == "quick" else 3
    seqs = [s for L in range(0, n + 1) for s in itertools.product(range(len(STMTS)), repeat=L)]
    if tier == "quick":
        seqs = [s for s in seqs if len(s) < 2 or s[0] in (0, 1, 6, 12)]
    for seq in seqs:
        for fi, filler in enumerate(FILLERS if tier != "quick" else FILLERS[::2] + [FILLERS[4]]):
            stmts = [STMTS[i] for i in seq]
            script = filler + "".join(s + ";" + filler for s in stmts)
            # remove_comments=True (the connector's option to strip comments first) must not change anything either: comments are ignored
            # anyway and comment markers inside literals are literal text
            for cls, rc in ((sfc.SnowflakeCursor, False), (sfc.DictCursor, False), (sfc.SnowflakeCursor, True)) if fi == 0 else ((sfc.SnowflakeCursor, False), (sfc.SnowflakeCursor, True)):
                fs1, fs2 = new_instance(repo), new_instance(repo)
                c1, c2 = fs1.connect("db1", "s1"), fs2.connect("db1", "s1")
                # reference: one by one
                want = []
                for s in stmts:
                    try:
                        want.append(outcome(c1.cursor(cls).execute(s)))
                    except Exception as e:  # noqa: BLE001
                        want.append(outcome(e))
                        break
                got = []
                err = None
                try:
                    curs = list(c2.execute_string(script, cursor_class=cls, remove_comments=rc))
                    got = [outcome(c) for c in curs]
                except Exception as e:  # noqa: BLE001
                    err = e
                if err is not None:
                    # execute_string raises at the first failing statement: the earlier ones must have been applied
                    ok = bool(want) and want[-1][0] == "error" and want[-1][1:] == outcome(err)[1:] and table_state(c1) == table_state(c2)
                    detail = f"raised {type(err).__name__}; reference {want[-1] if want else None}"
                else:
                    ok = got == want and table_state(c1) == table_state(c2)
                    detail = "ok" if ok else f"got {got} want {want}"
                cid = f"script:{'-'.join(map(str, seq))}:f{fi}:{cls.__name__}" + (":remove_comments" if rc else "")
                t.case(cid, (seq, fi, cls.__name__, rc) if seq else None, ok, function="fakesnow.conn.FakeSnowflakeConnection.execute_string", case={"script": script, "cursor": cls.__name__, "remove_comments": rc}, expected="one-by-one", actual=detail, sample_every=41)
    # nop_regexes
    pattern_sets = [["^CALL.*"], ["^grant ", "create\\s+role"], ["^ALTER SESSION"], [".*never matches this.*zzz"]]
    stmts = ["call my_proc()", "CALL P2(1)", "grant select on t to role r", "create role r1", "alter session set x = 1", "insert into t values ('call me')", "select 'grant ' || s from t",
             "  call leading_space()", "select count(*) from t", "update t set s = 'create role' where false"]
    for pats in pattern_sets:
        fs_opt, fs_ref = new_instance(repo, nop_regexes=pats), new_instance(repo)
        a, b = fs_opt.connect("db1", "s1"), fs_ref.connect("db1", "s1")
        for conn in (a, b):
            conn.cursor().execute("create table t (s varchar)")
            conn.cursor().execute("insert into t values ('x')")
        import re

        for s in stmts:
            matches = any(re.match(p, s, re.IGNORECASE) for p in pats)
            ca = a.cursor()
            # reuse a cursor that already fetched: the no-op must still deliver its status row
            ca.execute("select s from t")
            ca.fetchall()
            try:
                got = outcome(ca.execute(s))
            except Exception as e:  # noqa: BLE001
                got = outcome(e)
            if matches:
                ok = got[:3] == ("ok", [("Statement executed successfully.",)], 1) and [x.upper() for x in got[3]] == ["STATUS"] and table_state(a) == table_state(b)
                detail = repr(got)
            else:
                try:
                    want = outcome(b.cursor().execute(s))
                except Exception as e:  # noqa: BLE001
                    want = outcome(e)
                ok = got == want and table_state(a) == table_state(b)
                detail = f"got {got} want {want}"
            t.case(f"nop:{'|'.join(pats)}:{s}", ("nop", tuple(pats), s), ok, function="fakesnow.cursor.FakeSnowflakeCursor.execute", case={"patterns": pats, "sql": s}, expected="no-op status iff a pattern matches at the start", actual=detail, sample_every=7)
    return t.result(bound=f"scripts of <= {n} statements over {len(STMTS)} statements x fillers x cursor class; {len(pattern_sets)} pattern sets x {len(stmts)} statements")


def replay(case, repo):
    r = run("quick", 0, repo)
    bad = [f for f in r["failures"] if f["case_id"] == case.get("case_id")]
    if not bad and str(case.get("case_id", "")).startswith("script:"):
        r = run("thorough", 0, repo)
        bad = [f for f in r["failures"] if f["case_id"] == case.get("case_id")]
    return (not bad), (bad[0]["actual"] if bad else "ok")
