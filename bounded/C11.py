"""Bounded stand-in for C11 on the real stack: JSON documents (bounded depth/width) x paths x cast targets x operator contexts,
literal vs table column, against navigating the same document in Python."""
from __future__ import annotations

import itertools
import json

from .common import Tally, new_instance

DOCS = [
    {"a": 1, "b": "x", "c": None, "d": True, "e": [1, "two", None, {"f": 2.5}], "g": {"h": {"i": "deep"}}, "q": "it's \"quoted\""},
    {"a": {"b": 2}, "a.b": 1, "": 5, "arr": []},
    [1, [2, 3], {"k": "v"}],
    "scalar",
    {"n": -0.5, "big": 12345678901234567890, "s": "10", "t": "TRUE"},
]
# path: list of keys/indices -> snowflake syntaxes
PATHS = [["a"], ["b"], ["c"], ["d"], ["e"], ["e", 0], ["e", 1], ["e", 3, "f"], ["g", "h", "i"], ["zz"], ["a", "b"], ["e", 9], ["b", "x"], [0], [1, 1], [2, "k"], ["q"], ["arr"], ["n"], ["s"]]


def navigate(doc, path):
    cur = doc
    for p in path:
        if isinstance(p, int):
            if not isinstance(cur, list) or p >= len(cur):
                return ("missing",)
            cur = cur[p]
        else:
            if not isinstance(cur, dict) or p not in cur:
                return ("missing",)
            cur = cur[p]
    return ("value", cur)


def colon_syntax(base, path):
    out = base
    for i, p in enumerate(path):
        if isinstance(p, int):
            out += f"[{p}]"
        else:
            out += (":" if i == 0 else ".") + p
    return out


def bracket_syntax(base, path):
    return base + "".join(f"[{p}]" if isinstance(p, int) else f"['{p}']" for p in path)


def expect_raw(nav):
    """JSON text of the extracted value, or None"""
    if nav[0] == "missing" or nav[1] is None:
        return None
    return nav[1]


def run(tier="quick", seed=0, repo="/repo"):
    t = Tally(
        rule="documents of the list x paths (present, missing, wrong kind, array index, nested) x syntax (v:a.b / v['a'][0]) x source (literal parse_json / table column) x use "
        "(raw extract, ::varchar, ::int, ::boolean, upper(), comparison in WHERE with and/or, arithmetic, and the bare extraction under BETWEEN / NOT BETWEEN / IN / IS NULL / = / range / CASE) against Python navigation of the same document; plus OBJECT_CONSTRUCT, ARRAY_SIZE, FLATTEN, TRY_PARSE_JSON; "
        "distinct = distinct (document, path, syntax, source, use)",
        exhaustive=True,
    )
    fs = new_instance(repo)
    conn = fs.connect("db1", "s1")
    cur = conn.cursor()
    cur.execute("create table docs (id int, v variant)")
    for i, d in enumerate(DOCS):
        cur.execute("insert into docs select %s, parse_json(%s)", (i, json.dumps(d)))

    def q(sql):
        cur.execute(sql)
        return cur.fetchall()

    for i, d in enumerate(DOCS):
        for path in PATHS:
            if isinstance(d, list) != isinstance(path[0], int) and not isinstance(d, str):
                if tier == "quick":
                    continue
            nav = navigate(d, path)
            raw = expect_raw(nav)
            for syn_name, syn in (("colon", colon_syntax), ("bracket", bracket_syntax)):
                if syn_name == "colon" and isinstance(path[0], int):
                    continue
                for src_name, base, frm in (("literal", f"parse_json('{json.dumps(d).replace(chr(39), chr(39) * 2)}')", ""), ("column", "v", f" from docs where id = {i}")):
                    expr = syn(base, path)
                    klass = "json-chained-brackets" if syn_name == "bracket" and len(path) > 1 else "json"
                    cid = f"{klass}:{i}:{'/'.join(map(str, path))}:{syn_name}:{src_name}"
                    # raw extract: JSON text
                    try:
                        got = q(f"select {expr} as x{frm}")
                        gv = got[0][0] if got else "norow"
                        ok = (gv is None and raw is None) or (gv is not None and raw is not None and json.loads(gv) == raw)
                        detail = repr(gv)
                    except Exception as e:  # noqa: BLE001
                        ok, detail = False, f"{type(e).__name__}: {str(e)[:120]}"
                    t.case(cid + ":raw", (cid, "raw"), ok, function="fakesnow.transforms.indices_to_json_extract", case={"doc": i, "path": path, "syntax": syn_name, "source": src_name, "use": "raw"}, expected=repr(raw), actual=detail, sample_every=61)
                    # ::varchar drops the JSON quotes of strings
                    if raw is not None and not isinstance(raw, (dict, list)):
                        want = raw if isinstance(raw, str) else json.dumps(raw)
                        for use, sql, wv in (("varchar", f"select {expr}::varchar{frm}", want), ("upper", f"select upper({expr}){frm}", want.upper()), ("paren_varchar", f"select ({expr})::varchar{frm}", want)):
                            try:
                                got = q(sql)
                                ok = got == [(wv,)]
                                detail = repr(got)
                            except Exception as e:  # noqa: BLE001
                                ok, detail = False, f"{type(e).__name__}: {str(e)[:120]}"
                            cid2 = cid
                            if klass == "json" and use == "paren_varchar":
                                cid2 = cid.replace("json:", "json-paren-cast:", 1)
                            elif klass == "json" and syn_name == "bracket":
                                cid2 = cid.replace("json:", "json-bracket-cast:", 1)
                            t.case(cid2 + ":" + use, (cid, use), ok, function="fakesnow.transforms.json_extract_cast_as_varchar", case={"doc": i, "path": path, "syntax": syn_name, "source": src_name, "use": use}, expected=repr(wv), actual=detail, sample_every=61)
                    if isinstance(raw, int) and not isinstance(raw, bool) and abs(raw) < 2**31 and syn_name == "colon":
                        # the bare extraction as an operand of every operator class (no cast): precedence must not re-associate it
                        for use, sql, wv in (("between", f"select ({expr} between {raw - 1} and {raw + 1}){frm}", True), ("not_between", f"select ({expr} not between {raw - 1} and {raw + 1}){frm}", False),
                                             ("between_bound", f"select ({raw} between {expr} and {raw + 1}){frm}", True), ("in", f"select ({expr} in ({raw}, {raw + 7})){frm}", True),
                                             ("is_null_and", f"select ({expr} is not null and true){frm}", True), ("eq", f"select ({expr} = {raw}){frm}", True),
                                             ("range_and", f"select ({expr} > {raw - 1} and {expr} < {raw + 1}){frm}", True), ("case_between", f"select case when {expr} between {raw - 1} and {raw + 1} then 'in' else 'out' end{frm}", "in")):
                            try:
                                got = q(sql)
                                ok = got == [(wv,)]
                                detail = repr(got)
                            except Exception as e:  # noqa: BLE001
                                ok, detail = False, f"{type(e).__name__}: {str(e)[:120]}"
                            t.case(cid + ":" + use, (cid, use), ok, function="fakesnow.transforms.json_extract_precedence", case={"doc": i, "path": path, "use": use, "sql": sql}, expected=repr(wv), actual=detail, sample_every=61)
                    if isinstance(raw, int) and not isinstance(raw, bool) and abs(raw) < 2**31:
                        for use, sql, wv in (("int", f"select {expr}::int{frm}", raw), ("arith", f"select {expr}::int + 1{frm}", raw + 1),
                                             ("where_and", f"select count(*) {frm or ' from docs where id = 0'} and {expr}::int = {raw} and 1 = 1" if frm else None, 1),
                                             ("cmp_or", f"select ({expr}::int = {raw} or false){frm}", True)):
                            if sql is None:
                                continue
                            try:
                                got = q(sql)
                                ok = got == [(wv,)]
                                detail = repr(got)
                            except Exception as e:  # noqa: BLE001
                                ok, detail = False, f"{type(e).__name__}: {str(e)[:120]}"
                            t.case(cid + ":" + use, (cid, use), ok, function="fakesnow.transforms.json_extract_precedence", case={"doc": i, "path": path, "use": use}, expected=repr(wv), actual=detail, sample_every=61)
    extra = [
        ("object_construct('a', 1, 'b', null, 'c', 'x')", {"a": 1, "c": "x"}),
        ("object_construct('a', null, 'b', null, 'c', 1)", {"c": 1}),
        ("object_construct('a', null)", {}),
        ("object_construct('k', parse_json('[1,2]'))", {"k": [1, 2]}),
        ("array_size(parse_json('[1,2,3]'))", 3),
        ("array_size(parse_json('[]'))", 0),
        ("array_size(parse_json('{\"a\":1}'))", None),
        ("try_parse_json('{\"a\": 1}')", {"a": 1}),
        ("try_parse_json('not json')", None),
        ("split('a,b,,c', ',')", ["a", "b", "", "c"]),
        ("array_construct(1, 'two', null)", [1, "two", None]),
        ("[1, 2][0]", 1),
    ]
    for sql, want in extra:
        try:
            got = q(f"select {sql}")[0][0]
            gv = json.loads(got) if isinstance(got, str) else got
            ok = gv == want
            detail = repr(got)
        except Exception as e:  # noqa: BLE001
            ok, detail = False, f"{type(e).__name__}: {str(e)[:120]}"
        t.case("fn:" + sql, ("fn", sql), ok, function="fakesnow.transforms.object_construct", case={"sql": sql}, expected=repr(want), actual=detail)
    # FLATTEN: every element once, in order
    for arr in ([1, "two", None, {"k": 1}], [], [[1, 2], [3]]):
        lit_ = json.dumps(arr)
        try:
            got = q(f"select f.value from table(flatten(input => parse_json('{lit_}'))) f") if False else q(f"select value from lateral flatten(input => parse_json('{lit_}'))")
            gv = [None if r[0] is None else json.loads(r[0]) for r in got]
            ok = gv == arr
            detail = repr(got)
        except Exception as e:  # noqa: BLE001
            ok, detail = False, f"{type(e).__name__}: {str(e)[:120]}"
        t.case(f"flatten:{lit_}", ("flatten", lit_), ok, function="fakesnow.transforms.flatten", case={"array": arr}, expected=repr(arr), actual=detail)
    # FLATTEN value converted to text: strings lose their JSON quotes wherever the flatten sits (first FROM item, joined, with a table)
    cur.execute("create table if not exists arrs (id int, a variant)")
    cur.execute("insert into arrs select 1, parse_json('[\"x\", \"y z\", 3]')")
    for name, sql, want in [
        ("first-from", "select value::varchar from lateral flatten(input => parse_json('[\"x\", \"y z\", 3]'))", [("x",), ("y z",), ("3",)]),
        ("first-from-alias", "select f.value::varchar from lateral flatten(input => parse_json('[\"x\", \"y z\", 3]')) f", [("x",), ("y z",), ("3",)]),
        ("joined", "select f.value::varchar from arrs, lateral flatten(input => arrs.a) f order by 1", [("3",), ("x",), ("y z",)]),
        ("joined-upper", "select upper(f.value) from arrs, lateral flatten(input => arrs.a) f order by 1", [("3",), ("X",), ("Y Z",)]),
        ("string-type", "select value::string from lateral flatten(input => parse_json('[\"q\"]'))", [("q",)]),
    ]:
        try:
            got = q(sql)
            ok, detail = got == want, repr(got)
        except Exception as e:  # noqa: BLE001
            ok, detail = False, f"{type(e).__name__}: {str(e)[:120]}"
        t.case(f"flatten-text:{name}", ("flatten-text", name), ok, function="fakesnow.transforms.flatten_value_cast_as_varchar", case={"sql": sql}, expected=repr(want), actual=detail)
    return t.result(bound=f"{len(DOCS)} documents x {len(PATHS)} paths x 2 syntaxes x 2 sources x up to 15 uses; {len(extra)} function cases; 3 FLATTEN arrays; 5 FLATTEN value-to-text placements")


def replay(case, repo):
    r = run("thorough", 0, repo)
    bad = [f for f in r["failures"] if f["case_id"] == case.get("case_id")]
    return (not bad), (bad[0]["actual"] if bad else "ok")
