"""Bounded stand-in for C02 on the real stack: every scenario (a short history of statements of one kind) is run once per
re-spelling of its keywords / function names / unquoted identifiers (lower, UPPER, mIxEd, per-word random; identifiers also
as the double-quoted upper-case spelling of the same object) on a fresh instance; the complete observable outcome of every
statement must equal the all-upper-case baseline, and the reported names must be upper case (unquoted) / verbatim (quoted)."""
from __future__ import annotations

import random
import re

from .common import Tally, new_instance

# {x} = an unquoted identifier (re-spelled); text outside '...' and "..." = keywords / functions (re-spelled);
# '...' literals and "..." quoted identifiers are never touched
SCENARIOS = {
    "query": [
        "create table {t1} ({a} int, {b} varchar, \"quoted col\" int, \"lower\" int)",
        "insert into {t1} ({a}, {b}, \"quoted col\", \"lower\") values (1, 'x', 10, 100), (2, 'Y', 20, 200)",
        "select {a}, {b} as {al}, \"quoted col\", \"lower\", {a} + 1, count(*) over () as {cnt} from {t1} where {b} = 'x' order by {a}",
        "select * from {t1} order by {a}",
        "select {t1}.{a}, {x}.{b} from {t1} join {t1} as {x} on {t1}.{a} = {x}.{a} order by 1",
        "with {cte} as (select {a} as {k} from {t1}) select max({k}) as {m} from {cte}",
        "select {b}, sum({a}) as {tot} from {t1} group by {b} having sum({a}) > 0 order by {b}",
        "select {missing} from {t1}",
        "select * from {nosuch}",
    ],
    "dml": [
        "create table {t1} ({a} int, {b} varchar)",
        "insert into {t1} values (1, 'x'), (2, 'y'), (3, 'z')",
        "update {t1} set {b} = 'u' where {a} >= 2",
        "delete from {t1} where {a} = 1",
        "insert into {t1} ({b}, {a}) select {b}, {a} + 10 from {t1}",
        "select * from {t1} order by {a}",
        "truncate table {t1}",
        "select count(*) as {c} from {t1}",
    ],
    "ddl": [
        "create table {t1} ({a} int)",
        "create table if not exists {t1} ({a} int)",
        "create or replace table {t2} as select 1 as {a}, 'x' as {b}",
        "alter table {t1} add column {b} varchar",
        "create view {v1} as select {a} from {t1}",
        "create schema {s2}",
        "create table {s2}.{t3} ({z} int)",
        "create table \"MixedCase\" (\"Col\" int)",
        "select \"Col\" from \"MixedCase\"",
        "select table_name, table_schema from information_schema.tables where table_schema in ('S1', 'S2') order by 1, 2",
        "select column_name, data_type from information_schema.columns where table_name in ('T1', 'T2', 'MixedCase') order by table_name, ordinal_position",
        "drop view {v1}",
        "drop table {t1}",
        "drop table {t1}",
        "drop table if exists {t1}",
        "drop schema {s2}",
    ],
    "use": [
        "create database {d2}",
        "use database {d2}",
        "select current_database(), current_schema()",
        "create schema {s2}",
        "use schema {s2}",
        "select current_database(), current_schema()",
        "use schema {d2}.{s2}",
        "create table {t1} ({a} int)",
        "select table_catalog, table_schema, table_name from information_schema.tables where table_name = 'T1'",
        "use schema {nos}",
        "use database {nod}",
        "use database \"D2\"",
        "use schema \"S2\"",
    ],
    "merge": [
        "create table {tgt} ({id} int, {v} varchar)",
        "create table {src} ({id} int, {v} varchar, {del} boolean)",
        "insert into {tgt} values (1, 'a'), (2, 'b'), (3, 'c')",
        "insert into {src} values (1, 'A', false), (3, 'C', true), (4, 'D', false)",
        "merge into {tgt} using {src} on {tgt}.{id} = {src}.{id} when matched and {src}.{del} then delete when matched then update set {v} = {src}.{v} when not matched then insert ({id}, {v}) values ({src}.{id}, {src}.{v})",
        "select * from {tgt} order by {id}",
        "merge into {tgt} as {t} using (select {id}, {v} from {src}) as {s} on {t}.{id} = {s}.{id} when matched then update set {t}.{v} = 'again'",
        "select * from {tgt} order by {id}",
        # quoted and unquoted naming of the same source table in one statement; the join key only occurs in ON
        "merge into {tgt} using {src} on {tgt}.{id} = \"SRC\".{id} when matched then update set {v} = 'q'",
        "select * from {tgt} order by {id}",
    ],
    "show": [
        "create table {t1} ({id} int primary key, {name} varchar(20) not null, {amt} number(10,2))",
        "describe table {t1}",
        "desc table {t1}",
        "show tables",
        "show terse tables",
        "show schemas",
        "show databases",
        "show columns in table {t1}",
        "show primary keys",
        "show primary keys in table {t1}",
        "show objects",
        "describe table {nosuch}",
    ],
    "set": [
        "set {var} = 5",
        "select ${var} as {c}",
        "set {var2} = 'Text'",
        "select ${var2}",
        "unset {var}",
        "select ${var}",
    ],
    "misc": [
        "create table {t1} ({a} int, {ts} timestamp_ntz, {j} variant)",
        "insert into {t1} select 1, '2020-01-02 03:04:05', parse_json('{\"Key\": 1}')",
        "select to_char({ts}, 'YYYY-MM-DD') as {d}, iff({a} = 1, 'one', 'other') as {w}, coalesce(null, {a}) as {co}, upper('x') || lower('Y') as {s} from {t1}",
        "select {a}::varchar as {av}, cast({a} as float) as {af}, try_cast('1' as int) as {ti} from {t1}",
        "comment on table {t1} is 'Some Comment'",
        "alter table {t1} set comment = 'Other'",
        "select comment from information_schema.tables where table_name = 'T1'",
        "begin",
        "insert into {t1} ({a}) values (2)",
        "rollback",
        "select count(*) from {t1}",
        "alter table {t1} set tag {tg} = 'v1'",
        "alter table {t1} modify column {a} set tag {tg} = 'v2'",
        "alter table {t1} modify column {a} unset tag {tg}",
        "create tag {tg2}",
        "create sequence {seq1}",
        "select {seq1}.nextval",
    ],
}

SEG = re.compile(r"('(?:[^']|'')*')|(\"[^\"]*\")|\{(\w+)\}|([A-Za-z_][A-Za-z_0-9]*)|([^'\"{A-Za-z_]+)")


def _mixed(w, start=0):
    return "".join(c.upper() if (i + start) % 2 == 0 else c.lower() for i, c in enumerate(w))


def spell_word(w, mode, rnd):
    if mode == "lower":
        return w.lower()
    if mode == "upper":
        return w.upper()
    if mode == "mixed":
        return _mixed(w)
    if mode == "mixed2":
        return _mixed(w, 1)
    if mode == "random":
        return "".join(rnd.choice((c.lower(), c.upper())) for c in w)
    raise ValueError(mode)


def respell(template, kw_mode, id_mode, rnd):
    out = []
    for lit, quoted, ident, word, other in SEG.findall(template):
        if lit:
            out.append(lit)
        elif quoted:
            out.append(quoted)
        elif ident:
            if id_mode == "quoted":
                out.append('"' + ident.upper() + '"')
            else:
                out.append(spell_word(ident, id_mode, rnd))
        elif word:
            out.append(spell_word(word, kw_mode, rnd))
        else:
            out.append(other)
    return "".join(out)


def outcome(conn, sql, cls):
    cur = conn.cursor(cls)
    try:
        cur.execute(sql)
        rows = cur.fetchall()
        if rows and isinstance(rows[0], dict):
            rows = [tuple(sorted(r.items(), key=lambda kv: str(kv[0]))) for r in rows]
        return ("ok", rows, cur.rowcount, [d.name for d in (cur.description or [])], conn.database, conn.schema)
    except Exception as e:  # noqa: BLE001
        return ("error", type(e).__name__, getattr(e, "errno", None), getattr(e, "sqlstate", None), str(getattr(e, "msg", e)).split("\n")[0], conn.database, conn.schema)


def kind_of(sql):
    w = sql.split()
    k = w[0].lower()
    if k in ("create", "drop", "alter", "show", "use") and len(w) > 1:
        nxt = [x.lower() for x in w[1:4] if x.lower() not in ("or", "replace", "if", "not", "exists", "terse")]
        return k + "-" + (nxt[0] if nxt else "")
    return k


def run_history(repo, stmts, kw_mode, id_mode, seed, cls):
    rnd = random.Random(seed)
    fs = new_instance(repo)
    conn = fs.connect("db1", "s1")
    res = []
    for tpl in stmts:
        sql = respell(tpl, kw_mode, id_mode, rnd)
        res.append((sql, outcome(conn, sql, cls)))
    return res


def variants(tier, seed):
    v = [(k, i, 0) for k in ("lower", "upper", "mixed") for i in ("lower", "upper", "mixed", "quoted")]
    v += [("mixed2", "mixed2", 0)]
    n = 6 if tier == "quick" else 150
    v += [("random", "random", seed * 1000 + j) for j in range(n)]
    v.remove(("upper", "upper", 0))
    return v


def run(tier="quick", seed=0, repo="/repo"):
    import snowflake.connector.cursor as sfc

    t = Tally(
        rule="each scenario history (queries incl. aliases/joins/CTE/star, DML, DDL incl. quoted mixed-case objects and information_schema, USE, MERGE, SHOW/DESCRIBE, SET/UNSET, misc incl. comments, "
        "transactions, sequences, failing statements) is run on a fresh instance per spelling variant: keywords x identifiers in {lower, UPPER, mIxEd} (+ identifiers as the quoted upper-case name) and per-letter random "
        "spellings (literals and quoted identifiers untouched); per statement rows, rowcount, column names, DictCursor keys, error (class, errno, sqlstate, first message line) and conn.database/schema must equal the "
        "all-upper-case baseline; and unquoted names are reported in upper case, quoted verbatim; distinct = distinct (scenario, statement, variant)",
        exhaustive=False,
    )
    nvar = 0
    for name, stmts in SCENARIOS.items():
        for cls, cname in ((sfc.SnowflakeCursor, "tuple"), (sfc.DictCursor, "dict")):
            if cname == "dict" and name not in ("query", "show", "merge"):
                continue
            base = run_history(repo, stmts, "upper", "upper", 0, cls)
            # absolute: unquoted names reported upper-case, quoted verbatim
            for idx, (sql, o) in enumerate(base):
                if o[0] == "ok" and cname == "tuple":
                    names = o[3]
                    # a reported name that is (case-insensitively) an unquoted identifier written in the statement must be upper case;
                    # a name written in double quotes must come back verbatim.  (status / SHOW column titles and expression texts
                    # are not identifiers of the statement and are not judged here.)
                    words = {w.upper() for _l, _q, ident, w, _o in SEG.findall(stmts[idx]) for w in (ident, w) if w}
                    quoted = {q[1:-1] for _l, q, _i, _w, _o in SEG.findall(stmts[idx]) if q}
                    bad = [n for n in names if n.upper() in words and n not in quoted and n != n.upper()]
                    missing_q = [q for q in quoted if kind_of(stmts[idx]) == "select" and q not in names and q.upper() != q and ("select " + '"' + q) in stmts[idx]]
                    t.case(f"names:{name}#{idx} {kind_of(stmts[idx])}" + (":information_schema" if "information_schema" in stmts[idx] else ""), ("names", name, idx), not bad and not missing_q, function="fakesnow.cursor.FakeSnowflakeCursor.description", case={"sql": sql}, expected="unquoted names in upper case; quoted verbatim", actual=repr(names))
            for kw, idm, sd in variants(tier, seed):
                if cname == "dict" and kw != idm:
                    continue
                if name == "set" and idm == "quoted":
                    continue  # $"VAR" is not a spelling of $var: quoted session-variable names are outside the statement's grammar here
                nvar += 1
                got = run_history(repo, stmts, kw, idm, sd, cls)
                for idx, ((sql_b, ob), (sql_v, ov)) in enumerate(zip(base, got)):
                    ok = ob == ov
                    cid = f"respell:{name}#{idx} {kind_of(stmts[idx])}" + (":dict" if cname == "dict" else "") + (":quoted-ident" if idm == "quoted" else "")
                    t.case(cid, (name, idx, kw, idm, sd, cname), ok, function="fakesnow.cursor.FakeSnowflakeCursor._execute", case={"scenario": name, "index": idx, "keywords": kw, "identifiers": idm, "seed": sd, "cursor": cname, "sql": sql_v, "baseline_sql": sql_b},
                           expected=repr(ob), actual=repr(ov), sample_every=997)
    return t.result(bound=f"{len(SCENARIOS)} scenarios, {sum(len(s) for s in SCENARIOS.values())} statements, {nvar} (scenario, variant) histories")


def replay(case, repo):
    import snowflake.connector.cursor as sfc

    c = case.get("case") or {}
    if "scenario" not in c:
        r = run("quick", 0, repo)
        bad = [f for f in r["failures"] if f["case_id"] == case.get("case_id")]
        return (not bad), (bad[0]["actual"] if bad else "ok")
    cls = sfc.DictCursor if c.get("cursor") == "dict" else sfc.SnowflakeCursor
    stmts = SCENARIOS[c["scenario"]]
    base = run_history(repo, stmts, "upper", "upper", 0, cls)
    got = run_history(repo, stmts, c["keywords"], c["identifiers"], c["seed"], cls)
    i = c["index"]
    return base[i][1] == got[i][1], f"{got[i][0]!r} -> {got[i][1]!r}  (baseline {base[i][0]!r} -> {base[i][1]!r})"
