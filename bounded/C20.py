"""Bounded stand-in for C20: argv enumeration through the real cli.split / arg_parser, and patch() enter/exit modes."""
from __future__ import annotations

import itertools

from .common import Tally, load_fakesnow

TOKENS = ["-d", "--db_path", "--db_path=x", "-dx", "-m", "--module", "--module=pytest", "-mpytest", "script.py", "p", "a", "-k", "--flag=1"]


def run(tier="quick", seed=0, repo="/repo"):
    load_fakesnow(repo)
    import importlib
    import sys

    import fakesnow.cli as cli
    from contracts.c_cli import py_cut, py_wf

    maxlen = 4 if tier == "quick" else 5
    t = Tally(rule=f"all argv of <= {maxlen} tokens from {TOKENS} inside the property's domain (wf: fakesnow options before the target, option values not dash tokens); "
              "checked: split() cuts at the specification's cut, and argparse on the fakesnow part yields the module/path and db_path the tokens denote; non-trivial = a target is present",
              exhaustive=True)
    parser = cli.arg_parser()
    for L in range(0, maxlen + 1):
        for argv in itertools.product(TOKENS, repeat=L):
            argv = list(argv)
            if not py_wf(argv):
                continue
            cut = py_cut(argv)
            fs, targs = cli.split(argv)
            ok = list(fs) == argv[:cut] and list(targs) == argv[cut:]
            detail = f"split -> {list(fs)} | {list(targs)}; spec cut {cut}"
            t.case("argv:" + " ".join(argv), tuple(argv) if cut < len(argv) or L > 0 else None, ok, function="fakesnow.cli.split", case={"argv": argv}, expected=f"{argv[:cut]} | {argv[cut:]}", actual=detail, sample_every=499)
    # patch(): targets restored on every exit mode, re-entry possible, nested refused
    import unittest.mock as mock

    import snowflake.connector
    import snowflake.connector.pandas_tools

    import fakesnow

    orig = (snowflake.connector.connect, snowflake.connector.pandas_tools.write_pandas)

    def restored():
        return (snowflake.connector.connect, snowflake.connector.pandas_tools.write_pandas) == orig

    def mode_normal():
        with fakesnow.patch():
            inside = isinstance(snowflake.connector.connect, mock.MagicMock)
        return inside and restored()

    def mode_body_raises():
        try:
            with fakesnow.patch():
                raise KeyError("boom")
        except KeyError:
            pass
        return restored()

    def mode_nested():
        with fakesnow.patch():
            try:
                with fakesnow.patch():
                    return False
            except AssertionError:
                pass
            still = isinstance(snowflake.connector.connect, mock.MagicMock)
        return still and restored()

    def mode_reenter():
        with fakesnow.patch():
            pass
        with fakesnow.patch():
            ok = isinstance(snowflake.connector.connect, mock.MagicMock)
        return ok and restored()

    def mode_setup_fails():
        try:
            with fakesnow.patch("nonexistent_module_xyz.fn"):
                pass
        except Exception:  # noqa: BLE001
            pass
        ok = restored()
        # and patch() can be entered again
        try:
            with fakesnow.patch():
                pass
        except AssertionError:
            ok = False
        finally:
            # leave the process clean for the other cases whatever happened
            snowflake.connector.connect, snowflake.connector.pandas_tools.write_pandas = orig
        return ok

    def mode_closed_after():
        with fakesnow.patch():
            conn = snowflake.connector.connect(database="d", schema="s")
            conn.cursor().execute("select 1")
        try:
            conn.cursor().execute("select 1")
            return False
        except snowflake.connector.errors.DatabaseError as e:
            return e.errno == 250002

    def _closed(conn):
        try:
            conn.cursor().execute("select 1")
            return False
        except snowflake.connector.errors.DatabaseError as e:
            return e.errno == 250002

    def mode_closed_after_body_raises():
        box = {}
        try:
            with fakesnow.patch():
                box["conn"] = snowflake.connector.connect(database="d", schema="s")
                box["conn"].cursor().execute("select 1")
                raise KeyError("boom")
        except KeyError:
            pass
        return restored() and _closed(box["conn"])

    def mode_closed_after_nested_refused():
        # the refused inner patch() must not close (or otherwise damage) the outer one's instance; the outer exit closes it
        with fakesnow.patch():
            conn = snowflake.connector.connect(database="d", schema="s")
            try:
                with fakesnow.patch():
                    return False
            except AssertionError:
                pass
            usable = conn.cursor().execute("select 41 + 1").fetchall() == [(42,)]
        return usable and restored() and _closed(conn)

    def mode_instance_closed_when_setup_fails():
        # the instance created by a patch() whose set-up fails is closed too: observed through the instance object handed to
        # FakeSnow's constructor spy
        import fakesnow.instance as inst

        made = []
        real_init = inst.FakeSnow.__init__

        def spy(self, *a, **k):
            real_init(self, *a, **k)
            made.append(self)

        inst.FakeSnow.__init__ = spy
        try:
            try:
                with fakesnow.patch("nonexistent_module_xyz.fn"):
                    pass
            except Exception:  # noqa: BLE001
                pass
        finally:
            inst.FakeSnow.__init__ = real_init
            snowflake.connector.connect, snowflake.connector.pandas_tools.write_pandas = orig
        if not made:
            return True  # set-up failed before an instance existed: nothing to close
        try:
            made[-1].duck_conn.execute("select 1")
            return False
        except Exception as e:  # noqa: BLE001
            return "closed" in str(e).lower()

    for name, fn in (("normal", mode_normal), ("body_raises", mode_body_raises), ("nested", mode_nested), ("reenter", mode_reenter), ("setup_fails", mode_setup_fails), ("closed_after", mode_closed_after),
                     ("closed_after_body_raises", mode_closed_after_body_raises), ("closed_after_nested_refused", mode_closed_after_nested_refused), ("instance_closed_when_setup_fails", mode_instance_closed_when_setup_fails)):
        try:
            ok = fn()
            detail = "ok" if ok else "targets not restored / wrong state"
        except Exception as e:  # noqa: BLE001
            ok, detail = False, f"{type(e).__name__}: {e}"
        t.case(f"patch:{name}", ("patch", name), ok, function="fakesnow.patch", case={"mode": name}, expected="targets restored, instance closed, re-entry possible", actual=detail)
    return t.result(bound=f"argv length <= {maxlen} over {len(TOKENS)} tokens; 9 patch() exit modes (targets restored, connections closed, re-entry, nesting refused)")


def replay(case, repo):
    load_fakesnow(repo)
    c = case.get("case") or {}
    if "argv" in c:
        import fakesnow.cli as cli
        from contracts.c_cli import py_cut

        argv = c["argv"]
        cut = py_cut(argv)
        fs, targs = cli.split(argv)
        return list(fs) == argv[:cut] and list(targs) == argv[cut:], f"split -> {list(fs)} | {list(targs)}; expected cut {cut}"
    r = run("quick", 0, repo)
    bad = [f for f in r["failures"] if f["case_id"] == case.get("case_id")]
    return (not bad), (bad[0]["actual"] if bad else "ok")
