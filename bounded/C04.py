"""Bounded stand-in for C04 on the real stack: DML histories against a Python reference (three-valued predicates,
NULLs, duplicates, empty tables), status rows and rowcount after every statement; DDL status messages."""
from __future__ import annotations

import itertools

from .common import Tally, new_instance

INIT = [(1, "x"), (2, None), (2, "y"), (None, "z")]


def P_gt1(r):
    return r[0] is not None and r[0] > 1


def P_bnull(r):
    return r[1] is None


def P_false(r):
    return False


def P_eq2(r):
    return r[0] == 2


OPS = {
    "ins1": ("insert into t values (7, 'n')", lambda rows: (rows + [(7, "n")], 1, "ins")),
    "ins2": ("insert into t (b, a) values ('p', 8), (null, null)", lambda rows: (rows + [(8, "p"), (None, None)], 2, "ins")),
    "inssel": ("insert into t select a, b from t where a > 1", lambda rows: (rows + [r for r in rows if P_gt1(r)], sum(1 for r in rows if P_gt1(r)), "ins")),
    "inssel0": ("insert into t select a, b from t where false", lambda rows: (rows, 0, "ins")),
    "upd_gt1": ("update t set b = 'u' where a > 1", lambda rows: ([(r[0], "u") if P_gt1(r) else r for r in rows], sum(1 for r in rows if P_gt1(r)), "upd")),
    "upd_null": ("update t set a = 0 where b is null", lambda rows: ([(0, r[1]) if P_bnull(r) else r for r in rows], sum(1 for r in rows if P_bnull(r)), "upd")),
    "upd_none": ("update t set a = 5 where a > 100", lambda rows: (rows, 0, "upd")),
    "del_eq2": ("delete from t where a = 2", lambda rows: ([r for r in rows if not P_eq2(r)], sum(1 for r in rows if P_eq2(r)), "del")),
    "del_none": ("delete from t where a is null and b is null and a = 1", lambda rows: (rows, 0, "del")),
    "del_all": ("delete from t", lambda rows: ([], len(rows), "del")),
}
STATUS = {"ins": ["number of rows inserted"], "upd": ["number of rows updated", "number of multi-joined rows updated"], "del": ["number of rows deleted"]}


def run_history(conn, seq):
    cur = conn.cursor()
    cur.execute("create or replace table t (a int, b varchar)")
    cur.execute("create or replace table other (k int)")
    cur.execute("insert into other values (42)")
    rows = list(INIT)
    cur.execute("insert into t values " + ", ".join(f"({'null' if a is None else a}, {'null' if b is None else repr(b)})" for a, b in rows))
    for op in seq:
        sql, ref = OPS[op]
        rows, n, kind = ref(rows)
        cur.execute(sql)
        got = cur.fetchall()
        names = [d.name for d in cur.description]
        want_row = (n, 0) if kind == "upd" else (n,)
        if cur.rowcount != n:
            return False, f"{op}: rowcount {cur.rowcount} != {n}"
        if got != [want_row] or names != STATUS[kind]:
            return False, f"{op}: status {got} {names} != {[want_row]} {STATUS[kind]}"
        cur.execute("select a, b from t")
        now = cur.fetchall()
        key = lambda r: (r[0] is None, r[0] or 0, r[1] is None, r[1] or "")  # noqa: E731
        if sorted(now, key=key) != sorted(rows, key=key):
            return False, f"{op}: table {sorted(now, key=key)} != {sorted(rows, key=key)}"
        cur.execute("select k from other")
        if cur.fetchall() != [(42,)]:
            return False, f"{op}: another table changed"
    return True, "ok"


DDL = [
    ("create schema s2", "Schema S2 successfully created."),
    ('create schema "mixedCase"', "Schema mixedCase successfully created."),
    ("create table s2.tt (x int)", "Table TT successfully created."),
    ('create table "Quoted t" (x int)', "Table Quoted t successfully created."),
    ("create view v1 as select 1 x", "View V1 successfully created."),
    ("alter table s2.tt add column y int", "Statement executed successfully."),
    ("drop view v1", "V1 successfully dropped."),
    ('drop table "Quoted t"', "Quoted t successfully dropped."),
    ("drop table s2.tt", "TT successfully dropped."),
    ("drop schema s2", "S2 successfully dropped."),
    ("create database db9", "Database DB9 successfully created."),
    ("truncate table t", None),
    ("comment on table t is 'c'", "Statement executed successfully."),
    ("set v1 = 3", "Statement executed successfully."),
    ("unset v1", "Statement executed successfully."),
    ("commit", "Statement executed successfully."),
    ("rollback", "Statement executed successfully."),
    ("alter table t set tag x = 'y'", "Statement executed successfully."),
]


def run(tier="quick", seed=0, repo="/repo"):
    maxlen = 2 if tier == "quick" else 3
    t = Tally(
        rule=f"all sequences of <= {maxlen} DML statements from {sorted(OPS)} on a table with NULLs and duplicates, checked after every statement against a Python reference "
        "(table contents as multiset, status row, column names, rowcount, an unrelated table); plus DDL status messages; non-trivial = at least one statement; distinct = distinct sequence",
        exhaustive=True,
    )
    fs = new_instance(repo)
    conn = fs.connect("db1", "s1")
    for L in range(1, maxlen + 1):
        for seq in itertools.product(sorted(OPS), repeat=L):
            try:
                ok, detail = run_history(conn, seq)
            except Exception as e:  # noqa: BLE001
                ok, detail = False, f"{type(e).__name__}: {e}"
            t.case("dml:" + "-".join(seq), seq, ok, function="fakesnow.cursor.FakeSnowflakeCursor._execute", case={"seq": list(seq)}, expected="reference model", actual=detail, sample_every=37)
    cur = conn.cursor()
    cur.execute("create or replace table t (a int, b varchar)")
    for sql, want in DDL:
        try:
            cur.execute(sql)
            got = cur.fetchall()
            if want is None:
                ok, detail = True, repr(got)
            else:
                ok, detail = got == [(want,)] and cur.rowcount == 1, repr(got)
        except Exception as e:  # noqa: BLE001
            ok, detail = False, f"{type(e).__name__}: {e}"
        t.case("ddl:" + sql, ("ddl", sql), ok, function="fakesnow.cursor.FakeSnowflakeCursor._execute", case={"sql": sql}, expected=want, actual=detail)
    conn.close()
    # with nop_regexes configured, DML whose text merely *contains* a pattern (in a literal, a column or a table name) is still executed
    fs3 = new_instance(repo, nop_regexes=[r"call\s", r"^alter session", "audit"])
    c3 = fs3.connect("db1", "s1")
    k = c3.cursor()
    k.execute("create or replace table notes (id int, audit_note varchar)")
    for sql, want_status, want_rows in [
        ("insert into notes values (1, 'please call me')", [(1,)], [(1, "please call me")]),
        ("insert into notes (id, audit_note) values (2, 'x')", [(1,)], [(1, "please call me"), (2, "x")]),
        ("update notes set audit_note = 'call  back' where id = 2", [(1, 0)], [(1, "please call me"), (2, "call  back")]),
        ("delete from notes where audit_note like '%call me%'", [(1,)], [(2, "call  back")]),
    ]:
        try:
            k.execute(sql)
            got_status, rc = k.fetchall(), k.rowcount
            k.execute("select id, audit_note from notes order by id")
            got_rows = k.fetchall()
            ok, detail = (got_status == want_status and rc == 1 and got_rows == want_rows), f"status {got_status} rowcount {rc} table {got_rows}"
        except Exception as e:  # noqa: BLE001
            ok, detail = False, f"{type(e).__name__}: {e}"
        t.case("nop-inside:" + sql, ("nop-inside", sql), ok, function="fakesnow.cursor.FakeSnowflakeCursor.execute", case={"sql": sql, "nop_regexes": ["call\\s", "^alter session", "audit"]},
               expected=f"status {want_status} table {want_rows}", actual=detail)
    c3.close()
    return t.result(bound=f"DML sequences of length <= {maxlen} over {len(OPS)} statements; {len(DDL)} DDL/status statements; 4 DML statements containing a configured no-op pattern")


def replay(case, repo):
    fs = new_instance(repo)
    conn = fs.connect("db1", "s1")
    c = case.get("case") or {}
    if "seq" in c:
        try:
            return run_history(conn, c["seq"])
        except Exception as e:  # noqa: BLE001
            return False, f"{type(e).__name__}: {e}"
    r = run("quick", 0, repo)
    bad = [f for f in r["failures"] if f["case_id"] == case.get("case_id")]
    return (not bad), (bad[0]["actual"] if bad else "ok")
