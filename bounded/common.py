"""Helpers for the bounded (run-time) tier: drives the REAL fakesnow from the repo under check."""
from __future__ import annotations

import importlib
import logging
import os
import sys

logging.getLogger("sqlglot").setLevel(logging.ERROR)


def load_fakesnow(repo):
    repo = os.path.realpath(repo)
    if repo not in sys.path:
        sys.path.insert(0, repo)
    import fakesnow

    if not os.path.realpath(fakesnow.__file__).startswith(repo + os.sep):
        for k in [k for k in sys.modules if k == "fakesnow" or k.startswith("fakesnow.")]:
            del sys.modules[k]
        fakesnow = importlib.import_module("fakesnow")
    assert os.path.realpath(fakesnow.__file__).startswith(repo + os.sep), fakesnow.__file__
    return fakesnow


def new_instance(repo, **kw):
    load_fakesnow(repo)
    from fakesnow.instance import FakeSnow

    return FakeSnow(**kw)


class Tally:
    def __init__(self, rule, exhaustive=False):
        self.evaluations = 0
        self.distinct = set()
        self.failures = []
        self.samples = []
        self.rule = rule
        self.exhaustive = exhaustive

    def case(self, case_id, nontrivial_key, ok, function=None, case=None, expected=None, actual=None, sample_every=97):
        self.evaluations += 1
        if nontrivial_key is not None:
            self.distinct.add(nontrivial_key)
        if not ok:
            self.failures.append({"case_id": case_id, "function": function, "case": case, "expected": repr(expected)[:500], "actual": repr(actual)[:500]})
        elif len(self.samples) < 6 and self.evaluations % sample_every == 1:
            self.samples.append({"case_id": case_id, "case": case, "observed": repr(actual)[:200]})

    def result(self, bound):
        return {
            "evaluations": self.evaluations,
            "distinct_nontrivial": len(self.distinct),
            "rule": self.rule,
            "bound": bound,
            "exhaustive": self.exhaustive,
            "samples": self.samples,
            "failures": self.failures,
        }
