"""Bounded stand-in for C09 on the real stack: DDL histories; after every step information_schema.tables / columns,
DESCRIBE TABLE, SHOW TABLES / OBJECTS / SCHEMAS and the description of SELECT * are compared with a reference catalog."""
from __future__ import annotations

import itertools

from .common import Tally, new_instance

# reference catalog: {(db, schema, table): {"kind": "TABLE"|"VIEW", "cols": [(name, sf_type, length_or_None, nullable)], "comment": str|None}}
OPS = [
    ("create_t", "create table {q}t (id number(10,0) not null, name varchar(20), note varchar) comment = 'first'"),
    ("replace_t", "create or replace table {q}t (id int, name varchar(5))"),
    ("create_u", "create table {q}u (ts timestamp_ntz, amt number(12,2), flag boolean, v variant)"),
    ("ctas", "create table {q}c as select id, name from {q}t"),
    ("clone", "create table {q}k clone {q}t"),
    ("add_col", "alter table {q}t add column extra varchar(7)"),
    ("drop_col", "alter table {q}t drop column name"),
    ("rename_col", "alter table {q}t rename column name to label"),
    ("rename_t", "alter table {q}t rename to t_renamed"),
    ("comment", "comment on table {q}t is 'second'"),
    ("set_comment", "alter table {q}t set comment = 'third'"),
    ("drop_t", "drop table {q}t"),
    ("view", "create view {q}v as select id from {q}t"),
    ("drop_v", "drop view {q}v"),
]
DEF = {
    "create_t": [("ID", "NUMBER", None, False), ("NAME", "TEXT", 20, True), ("NOTE", "TEXT", 16777216, True)],
    "replace_t": [("ID", "NUMBER", None, True), ("NAME", "TEXT", 5, True)],
    "create_u": [("TS", "TIMESTAMP_NTZ", None, True), ("AMT", "NUMBER", None, True), ("FLAG", "BOOLEAN", None, True), ("V", "VARIANT", None, True)],
}


def apply_ref(cat, op, db, sch):
    """returns False when the statement must fail"""
    k = lambda n: (db, sch, n)  # noqa: E731
    if op == "create_t":
        if k("T") in cat:
            return False
        cat[k("T")] = {"kind": "TABLE", "cols": list(DEF["create_t"]), "comment": "first"}
    elif op == "replace_t":
        cat[k("T")] = {"kind": "TABLE", "cols": list(DEF["replace_t"]), "comment": None}
    elif op == "create_u":
        if k("U") in cat:
            return False
        cat[k("U")] = {"kind": "TABLE", "cols": list(DEF["create_u"]), "comment": None}
    elif op in ("ctas", "clone"):
        new = "C" if op == "ctas" else "K"
        if k("T") not in cat or k(new) in cat or cat[k("T")]["kind"] != "TABLE":
            return False
        src = cat[k("T")]["cols"]
        if op == "ctas":
            if not {"ID", "NAME"} <= {c[0] for c in src}:
                return False
            cols = [(c[0], c[1], c[2], True) for c in src if c[0] in ("ID", "NAME")]
        else:
            cols = [(c[0], c[1], c[2], True) for c in src]
        cat[k(new)] = {"kind": "TABLE", "cols": cols, "comment": None}
    elif op == "add_col":
        if k("T") not in cat or any(c[0] == "EXTRA" for c in cat[k("T")]["cols"]):
            return False
        cat[k("T")]["cols"].append(("EXTRA", "TEXT", 7, True))
    elif op == "drop_col":
        if k("T") not in cat or not any(c[0] == "NAME" for c in cat[k("T")]["cols"]):
            return False
        cat[k("T")]["cols"] = [c for c in cat[k("T")]["cols"] if c[0] != "NAME"]
    elif op == "rename_col":
        if k("T") not in cat or not any(c[0] == "NAME" for c in cat[k("T")]["cols"]) or any(c[0] == "LABEL" for c in cat[k("T")]["cols"]):
            return False
        cat[k("T")]["cols"] = [("LABEL",) + c[1:] if c[0] == "NAME" else c for c in cat[k("T")]["cols"]]
    elif op == "rename_t":
        if k("T") not in cat or k("T_RENAMED") in cat:
            return False
        cat[k("T_RENAMED")] = cat.pop(k("T"))
    elif op in ("comment", "set_comment"):
        if k("T") not in cat:
            return False
        cat[k("T")]["comment"] = "second" if op == "comment" else "third"
    elif op == "drop_t":
        if k("T") not in cat:
            return False
        del cat[k("T")]
    elif op == "view":
        if k("T") not in cat or k("V") in cat or not any(c[0] == "ID" for c in cat[k("T")]["cols"]):
            return False
        idc = [c for c in cat[k("T")]["cols"] if c[0] == "ID"][0]
        cat[k("V")] = {"kind": "VIEW", "cols": [("ID", idc[1], None, True)], "comment": None}
    elif op == "drop_v":
        if k("V") not in cat:
            return False
        del cat[k("V")]
    return True


def observe(conn, cat, db, sch):
    """returns list of (aspect, detail) mismatches"""
    cur = conn.cursor()
    bad = []
    cur.execute(f"select table_name, table_type, comment from {db}.information_schema.tables where table_catalog = '{db}' and table_schema not in ('information_schema') order by table_schema, table_name")
    got = [(r[0], "VIEW" if r[1] == "VIEW" else "TABLE", r[2]) for r in cur.fetchall()]
    want = sorted((n, v["kind"], v["comment"]) for (d, s, n), v in cat.items() if d == db)
    if sorted(got) != want:
        bad.append(("tables", f"information_schema.tables {sorted(got)} != {want}"))
    for (d, s, n), v in cat.items():
        if d != db:
            continue
        if v["kind"] == "VIEW" and (db, s, "T") not in cat:
            continue
        cur.execute(f"select column_name, data_type, character_maximum_length, is_nullable from {db}.information_schema.columns where table_schema = '{s}' and table_name = '{n}' order by ordinal_position")
        cols = [(r[0], r[1], r[2], r[3] == "YES") for r in cur.fetchall()]
        wc = [(c[0], c[1], c[2], c[3]) for c in v["cols"]]
        if [(c[0], c[1]) for c in cols] != [(c[0], c[1]) for c in wc]:
            bad.append(("columns", f"{n}: information_schema.columns {cols} != {wc}"))
        elif [c[2] for c in cols] != [c[2] for c in wc]:
            bad.append(("lengths", f"{n}: character_maximum_length {[c[2] for c in cols]} != {[c[2] for c in wc]}"))
        elif v["kind"] == "TABLE" and [c[3] for c in cols] != [c[3] for c in wc]:
            bad.append(("nullable", f"{n}: is_nullable {[c[3] for c in cols]} != {[c[3] for c in wc]}"))
        # DESCRIBE and SELECT * agree on names and order
        try:
            cur.execute(f"describe {'view' if v['kind'] == 'VIEW' else 'table'} {db}.{s}.{n}")
            dn = [r[0] for r in cur.fetchall()]
            cur.execute(f"select * from {db}.{s}.{n}")
            sn = [x.name for x in cur.description]
            if dn != [c[0] for c in wc] or sn != [c[0] for c in wc]:
                bad.append(("describe", f"{n}: DESCRIBE {dn} / SELECT * {sn} != {[c[0] for c in wc]}"))
        except Exception as e:  # noqa: BLE001
            bad.append(("describe", f"{n}: {type(e).__name__}: {str(e)[:100]}"))
    cur.execute(f"show tables in schema {db}.{sch}")
    st = sorted(r[1] for r in cur.fetchall())
    wt = sorted(n for (d, s, n), v in cat.items() if d == db and s == sch and v["kind"] == "TABLE")
    if st != wt:
        bad.append(("show", f"SHOW TABLES {st} != {wt}"))
    cur.execute(f"show objects in schema {db}.{sch}")
    so = sorted(r[1] for r in cur.fetchall())
    wo = sorted(n for (d, s, n), v in cat.items() if d == db and s == sch)
    if so != wo:
        bad.append(("show", f"SHOW OBJECTS {so} != {wo}"))
    return bad


def run_history(repo, seq):
    fs = new_instance(repo)
    conn = fs.connect("db1", "s1")
    conn.cursor().execute("create schema db1.s2")
    cat = {}
    problems = []
    for i, op in enumerate(seq):
        sql = dict(OPS)[op].format(q="db1.s1.")
        expect_ok = apply_ref(dict((k, dict(v, cols=list(v["cols"]))) for k, v in cat.items()), op, "DB1", "S1")
        try:
            conn.cursor().execute(sql)
            ran = True
        except Exception:  # noqa: BLE001
            ran = False
        if ran != expect_ok:
            # a comment statement that succeeds although its table does not exist is its own class of failure (a known finding
            # is keyed on it), whatever else the history did before
            aspect = "comment-on-missing" if (op in ("comment", "set_comment") and ran and not expect_ok) else "outcome"
            problems.append((i, aspect, f"{op}: {'succeeded' if ran else 'failed'} but the reference says it {'succeeds' if expect_ok else 'fails'}"))
            return problems
        if ran:
            apply_ref(cat, op, "DB1", "S1")
        for aspect, detail in observe(conn, cat, "DB1", "S1"):
            problems.append((i, aspect, detail))
        if problems:
            return problems
    return problems


def run(tier="quick", seed=0, repo="/repo"):
    n = 2 if tier == "quick" else 3
    names = [o[0] for o in OPS]
    t = Tally(
        rule=f"all DDL histories of <= {n} statements from {names} (create [or replace] / CTAS / CLONE / alter add, drop, rename column / rename table / COMMENT ON / SET COMMENT / drop / view) after an initial CREATE TABLE, "
        "observed after every step: information_schema.tables (names, kinds, comments, no internal tables), information_schema.columns (names, order, Snowflake types, VARCHAR lengths, nullability), DESCRIBE, SELECT * description, SHOW TABLES / OBJECTS, "
        "against a reference catalog; statements that the reference says fail must fail; distinct = distinct history; a failing history is classified by the first aspect that differs",
        exhaustive=True,
    )
    for L in range(0, n + 1):
        for seq in itertools.product(names, repeat=L):
            full = ("create_t",) + seq
            try:
                problems = run_history(repo, full)
            except Exception as e:  # noqa: BLE001
                problems = [(-1, "harness", f"{type(e).__name__}: {str(e)[:160]}")]
            ok = not problems
            aspect = problems[0][1] if problems else "ok"
            t.case(f"ddl-{aspect}:" + ">".join(full), full, ok, function="fakesnow.info_schema", case={"history": list(full)}, expected="metadata == reference catalog", actual=(f"step {problems[0][0]}: {problems[0][2]}" if problems else "ok"), sample_every=19)
    fs = new_instance(repo)
    conn = fs.connect("db1", "s1")
    cur = conn.cursor()
    cur.execute("select table_schema, table_name from information_schema.tables where table_name like '%fs_%' or table_name in ('databases', 'views')")
    internal = cur.fetchall()
    t.case("internal-visible:information_schema.tables", ("internal",), not internal, function="fakesnow.info_schema", case={}, expected="none of fakesnow's internal tables listed", actual=repr(internal))
    # equally named tables with equally named columns in several schemas / databases: every scope reports its own declaration
    fs = new_instance(repo)
    conn = fs.connect("db1", "s1")
    cur = conn.cursor()
    decl = {("DB1", "S1"): 11, ("DB1", "S2"): 22, ("DB2", "S1"): 33}
    cur.execute("create schema db1.s2")
    cur.execute("create database db2")
    cur.execute("create schema db2.s1")
    for (db, sch), n_ in decl.items():
        cur.execute(f"create table {db}.{sch}.same (id int, name varchar({n_}), note varchar) comment = 'c{n_}'")
    for (db, sch), n_ in decl.items():
        want_cols = [("ID", None), ("NAME", n_), ("NOTE", 16777216)]
        checks = {
            "columns": (f"select column_name, character_maximum_length from {db}.information_schema.columns where table_catalog = '{db}' and table_schema = '{sch}' and table_name = 'SAME' order by ordinal_position", want_cols),
            "describe": (f"describe table {db}.{sch}.same", [("ID", "NUMBER(38,0)"), ("NAME", f"VARCHAR({n_})"), ("NOTE", "VARCHAR(16777216)")]),
            "comment": (f"select comment from {db}.information_schema.tables where table_catalog = '{db}' and table_schema = '{sch}' and table_name = 'SAME'", [(f"c{n_}",)]),
        }
        for aspect, (sql, want) in checks.items():
            try:
                cur.execute(sql)
                got = [tuple(r[:2]) if aspect != "comment" else tuple(r) for r in cur.fetchall()]
                ok, detail = got == want, repr(got)
            except Exception as e:  # noqa: BLE001
                ok, detail = False, f"{type(e).__name__}: {str(e)[:160]}"
            t.case(f"scope-{aspect}:{db}.{sch}.same", ("scope", aspect, db, sch), ok, function="fakesnow.info_schema", case={"sql": sql}, expected=repr(want), actual=detail)
    # a column re-declared from an explicit length to the default one: the earlier declaration must not survive in the side table
    REDECL = {
        "replace": ["create table db1.s1.r1 (id int, name varchar(10))", "create or replace table db1.s1.r1 (id int, name varchar)"],
        "drop-add-column": ["create table db1.s1.r2 (id int, name varchar(7))", "alter table db1.s1.r2 drop column name", "alter table db1.s1.r2 add column name string"],
        "drop-create": ["create table db1.s1.r3 (id int, name varchar(10))", "drop table db1.s1.r3", "create table db1.s1.r3 (id int, name text)"],
        "replace-shorter-then-default": ["create table db1.s1.r4 (id int, name varchar(10))", "create or replace table db1.s1.r4 (id int, name varchar(3))", "create or replace table db1.s1.r4 (id int, name varchar)"],
    }
    for label, stmts in REDECL.items():
        fs = new_instance(repo)
        conn = fs.connect("db1", "s1")
        cur = conn.cursor()
        tbl = stmts[0].split()[2].split(".")[-1].upper()
        try:
            for q in stmts:
                cur.execute(q)
            cur.execute(f"select character_maximum_length from db1.information_schema.columns where table_schema = 'S1' and table_name = '{tbl}' and column_name = 'NAME'")
            got_len = cur.fetchall()
            cur.execute(f"describe table db1.s1.{tbl}")
            got_desc = [r[1] for r in cur.fetchall() if r[0] == "NAME"]
            ok = got_len == [(16777216,)] and got_desc == ["VARCHAR(16777216)"]
            detail = f"information_schema {got_len}, DESCRIBE {got_desc}"
        except Exception as e:  # noqa: BLE001
            ok, detail = False, f"{type(e).__name__}: {str(e)[:160]}"
        t.case(f"redeclare-length:{label}", ("redeclare", label), ok, function="fakesnow.info_schema", case={"history": stmts}, expected="[(16777216,)], ['VARCHAR(16777216)']", actual=detail)
    return t.result(bound=f"4 length re-declaration histories; histories of <= {n} statements over {len(OPS)} DDL statements after one CREATE TABLE; one table name declared differently in 3 scopes x 3 metadata surfaces")


def replay(case, repo):
    c = case.get("case") or {}
    try:
        problems = run_history(repo, tuple(c["history"]))
    except Exception as e:  # noqa: BLE001
        return False, f"{type(e).__name__}: {e}"
    return (not problems), (f"step {problems[0][0]}: {problems[0][2]}" if problems else "ok")
