"""Bounded stand-in for C12 on the real stack: MERGE over generated target/source tables x clause lists x conditions x
aliases / subquery sources / keyword case, against a Python reference MERGE (deterministic merges only)."""
from __future__ import annotations

import itertools

from .common import Tally, new_instance

TARGETS = {
    "empty": [],
    "basic": [(1, "a", 10), (2, "b", 20), (3, "c", 30)],
    "dupkey": [(1, "a", 10), (1, "a2", 11), (2, "b", 20)],
    "nullkey": [(None, "n", 0), (2, "b", 20)],
}
SOURCES = {
    "empty": [],
    "some": [(1, "A", 100), (4, "D", 400)],
    "all": [(1, "A", 100), (2, "B", 200), (3, "C", 300)],
    "none": [(7, "G", 700), (None, "N", 1)],
    "flag": [(1, "A", 1), (2, "B", 0), (5, "E", 1), (6, "F", 0)],
}
# clause: (kind, condition on (t_row, s_row) or None, sql condition text)
CLAUSES = {
    "upd": ("update", None, ""),
    "upd_if": ("update", lambda t, s: s[2] >= 100 or s[2] == 1, "AND (s.amt >= 100 OR s.amt = 1)"),
    "del": ("delete", None, ""),
    "del_if": ("delete", lambda t, s: t[2] is not None and t[2] >= 20, "AND t.amt >= 20"),
    "ins": ("insert", None, ""),
    "ins_if": ("insert", lambda t, s: s[2] != 0, "AND s.amt <> 0"),
}
CLAUSE_LISTS = [["upd"], ["del"], ["ins"], ["upd", "ins"], ["del_if", "upd"], ["upd_if", "del"], ["ins_if"], ["ins", "upd"], ["ins_if", "del_if", "upd"], ["upd_if", "ins_if"]]
FORMS = ["plain", "lower", "subquery", "qualified", "alias"]


def reference(target, source, clauses):
    """Snowflake MERGE semantics for deterministic merges: per joined pair the first applicable matched clause applies;
    source rows matching no target row go through the not-matched clauses in order."""
    out = []
    counts = {"insert": 0, "update": 0, "delete": 0}
    matched_src = set()
    for t in target:
        partners = [s for s in source if t[0] is not None and s[0] == t[0]]
        if len(partners) > 1:
            return None  # nondeterministic
        if not partners:
            out.append(t)
            continue
        s = partners[0]
        matched_src.add(id(s))
        applied = False
        for name in clauses:
            kind, cond, _ = CLAUSES[name]
            if kind == "insert":
                continue
            if cond is None or cond(t, s):
                if kind == "update":
                    out.append((t[0], s[1], s[2]))
                    counts["update"] += 1
                else:
                    counts["delete"] += 1
                applied = True
                break
        if not applied:
            out.append(t)
    for s in source:
        if any(t[0] is not None and t[0] == s[0] for t in target):
            continue
        for name in clauses:
            kind, cond, _ = CLAUSES[name]
            if kind != "insert":
                continue
            if cond is None or cond(None, s):
                out.append(s)
                counts["insert"] += 1
                break
    return out, counts


def merge_sql(clauses, form):
    """forms: plain / lower (keyword case) / qualified use the table names themselves; subquery aliases a subquery source;
    alias gives both tables an alias (t, s)"""
    tgt, src = ("db1.s1.tgt", "db1.s1.src") if form == "qualified" else ("tgt", "src")
    if form == "alias":
        T, S, into, using = "t", "s", f"{tgt} as t", f"{src} as s"
    elif form == "subquery":
        T, S, into, using = "tgt", "s", tgt, f"(select k, name, amt from {src}) as s"
    else:
        T, S, into, using = "tgt", "src", tgt, src
    parts = [f"merge into {into} using {using} on {T}.k = {S}.k"]
    for name in clauses:
        kind, _, cond = CLAUSES[name]
        cond = cond.replace("s.", S + ".").replace("t.", T + ".")
        if kind == "update":
            parts.append(f"when matched {cond} then update set {T}.name = {S}.name, {T}.amt = {S}.amt")
        elif kind == "delete":
            parts.append(f"when matched {cond} then delete")
        else:
            parts.append(f"when not matched {cond} then insert (k, name, amt) values ({S}.k, {S}.name, {S}.amt)")
    sql = " ".join(parts)
    if form == "lower":
        return sql
    return sql.replace("merge into", "MERGE INTO").replace(" using ", " USING ").replace("when matched", "WHEN MATCHED").replace("when not matched", "WHEN NOT MATCHED").replace(" then ", " THEN ").replace("delete", "DELETE").replace("update set", "UPDATE SET").replace("insert (", "INSERT (").replace(" values ", " VALUES ")


def lit(v):
    return "null" if v is None else (repr(v) if isinstance(v, str) else str(v))


def key(r):
    return tuple((x is None, x if x is not None else 0) if not isinstance(x, str) else (False, x) for x in r)


def one(conn, tname, sname, clauses, form):
    target, source = TARGETS[tname], SOURCES[sname]
    ref = reference(target, source, clauses)
    if ref is None:
        return None, "nondeterministic"
    cur = conn.cursor()
    for tbl, rows in (("tgt", target), ("src", source)):
        cur.execute(f"create or replace table {tbl} (k int, name varchar, amt int)")
        if rows:
            cur.execute(f"insert into {tbl} values " + ", ".join("(" + ", ".join(lit(x) for x in r) + ")" for r in rows))
    sql = merge_sql(clauses, form)
    cur.execute(sql)
    got_counts = cur.fetchall()
    names = [d.name for d in cur.description]
    want_rows, want_counts = ref
    kinds = [CLAUSES[c][0] for c in clauses]
    want_names = [n for n, k in (("number of rows inserted", "insert"), ("number of rows updated", "update"), ("number of rows deleted", "delete")) if k in kinds]
    want_tuple = tuple(want_counts[k] for _, k in (("", "insert"), ("", "update"), ("", "delete")) if k in kinds)
    cur.execute("select k, name, amt from tgt")
    got_rows = cur.fetchall()
    cur.execute("select k, name, amt from src")
    src_after = cur.fetchall()
    if sorted(got_rows, key=key) != sorted(want_rows, key=key):
        return False, f"target {sorted(got_rows, key=key)} != {sorted(want_rows, key=key)}"
    if sorted(src_after, key=key) != sorted(source, key=key):
        return False, "source changed"
    if names != want_names:
        return False, f"count columns {names} != {want_names}"
    if any(x is None for r in got_counts for x in r):
        return "nullcount", f"counts {got_counts}: NULL instead of 0 when no row is merged"
    if [tuple(int(x) for x in r) for r in got_counts] != [want_tuple]:
        return False, f"counts {got_counts} {names} != {want_tuple} {want_names}"
    return True, "ok"


def helper_visible(conn):
    cur = conn.cursor()
    try:
        cur.execute("select * from merge_candidates")
        cur.fetchall()
        return True
    except Exception:  # noqa: BLE001
        return False


def run(tier="quick", seed=0, repo="/repo"):
    t = Tally(
        rule="target contents (empty, plain, several rows per key, NULL key) x source contents (empty, some/all/none matching, flag column) x clause lists (update/delete/insert with and without AND conditions incl. a "
        "parenthesised OR and target-column conditions, insert-before-matched order) x statement form (upper/lower keywords, subquery source, qualified names), against a Python reference MERGE; "
        "nondeterministic merges (a target row joining several source rows) skipped; checked: target rows, source untouched, count columns and values; plus helper-object visibility and all-or-nothing; distinct = distinct combination",
        exhaustive=True,
    )
    fs = new_instance(repo)
    conn = fs.connect("db1", "s1")
    forms = FORMS if tier != "quick" else ["plain", "lower", "subquery", "alias"]
    for tname, sname, clauses in itertools.product(TARGETS, SOURCES, CLAUSE_LISTS):
        for form in forms if (tname, sname) in (("basic", "some"), ("basic", "flag")) or tier != "quick" else ["plain"]:
            try:
                ok, detail = one(conn, tname, sname, clauses, form)
            except Exception as e:  # noqa: BLE001
                ok, detail = False, f"{type(e).__name__}: {str(e)[:200]}"
            if ok is None:
                continue
            prefix = "merge"
            if ok == "nullcount":
                ok, prefix = False, "merge-nullcount"
            cid = f"{prefix}:{tname}:{sname}:{'+'.join(clauses)}:{form}"
            t.case(cid, cid, ok, function="fakesnow.transforms_merge.merge", case={"target": tname, "source": sname, "clauses": clauses, "form": form}, expected="reference MERGE", actual=detail, sample_every=29)
    # SET / VALUES right-hand sides that are expressions over target *and* source columns of the same names, for both sort orders
    # of the two table names
    for tname, sname in (("accounts", "bookings"), ("zledger", "adjust")):
        cur = conn.cursor()
        try:
            cur.execute(f"create or replace table {tname} (id int, note varchar, amt int)")
            cur.execute(f"create or replace table {sname} (id int, note varchar, amt int)")
            cur.execute(f"insert into {tname} values (1, 't1', 10), (2, 't2', 20), (3, 't3', 30)")
            cur.execute(f"insert into {sname} values (2, 's2', 5), (3, 's3', 7), (4, 's4', 9)")
            cur.execute(
                f"merge into {tname} using {sname} on {tname}.id = {sname}.id "
                f"when matched and {tname}.amt + {sname}.amt > 30 then update set note = {tname}.note || '+' || {sname}.note, amt = {tname}.amt - {sname}.amt "
                f"when matched then update set note = {sname}.note || '<' || {tname}.note "
                f"when not matched then insert (id, note, amt) values ({sname}.id, upper({sname}.note), {sname}.amt * 2)"
            )
            counts = cur.fetchall()
            cur.execute(f"select id, note, amt from {tname} order by id")
            got = cur.fetchall()
            want = [(1, "t1", 10), (2, "s2<t2", 20), (3, "t3+s3", 23), (4, "S4", 18)]
            ok, detail = got == want and [tuple(int(x) for x in r) for r in counts] == [(1, 2)], f"target {got} counts {counts}"
        except Exception as e:  # noqa: BLE001
            ok, detail = False, f"{type(e).__name__}: {str(e)[:160]}"
        t.case(f"merge-expr:{tname}<-{sname}", ("merge-expr", tname), ok, function="fakesnow.transforms_merge._create_merge_candidates", case={"target": tname, "source": sname},
               expected="target [(1,'t1',10),(2,'s2<t2',20),(3,'t3+s3',23),(4,'S4',18)] counts [(1, 2)]", actual=detail)
    # source columns written without the table qualifier (their names are the source's own), literals in VALUES, delete first
    cur = conn.cursor()
    try:
        cur.execute("create or replace table t1 (k int, val varchar, status varchar)")
        cur.execute("create or replace table t2 (k2 int, newval varchar, newstatus varchar, m int)")
        cur.execute("insert into t1 values (1, 'a', 's1'), (2, 'b', 's2'), (3, 'c', 's3')")
        cur.execute("insert into t2 values (1, 'A', 'S1', 1), (2, 'B', 'S2', 0), (4, 'D', 'S4', 0)")
        cur.execute("merge into t1 using t2 on t1.k = t2.k2 when matched and t2.m = 0 then delete when matched then update set val = newval, status = newstatus "
                    "when not matched then insert (k, val, status) values (k2, newval, 'new')")
        counts = cur.fetchall()
        cur.execute("select k, val, status from t1 order by k")
        got = cur.fetchall()
        want = [(1, "A", "S1"), (3, "c", "s3"), (4, "D", "new")]
        ok, detail = got == want and [tuple(int(x) for x in r) for r in counts] == [(1, 1, 1)], f"target {got} counts {counts}"
    except Exception as e:  # noqa: BLE001
        ok, detail = False, f"{type(e).__name__}: {str(e)[:160]}"
    t.case("merge-expr:unqualified source columns", ("merge-expr", "unqualified"), ok, function="fakesnow.transforms_merge._create_merge_candidates", case={},
           expected="target [(1,'A','S1'),(3,'c','s3'),(4,'D','new')] counts [(1, 1, 1)]", actual=detail)
    t.case("helper:merge_candidates visible after MERGE", ("helper",), not helper_visible(conn), function="fakesnow.transforms_merge.merge", case={}, expected="no helper object visible in the session", actual="select * from merge_candidates succeeds" if helper_visible(conn) else "ok")
    # all or nothing: a MERGE whose later clause fails must leave the target as it was
    cur = conn.cursor()
    cur.execute("create or replace table tgt (k int, name varchar, amt int)")
    cur.execute("insert into tgt values (1, 'a', 10), (2, 'b', 20)")
    cur.execute("create or replace table src (k int, name varchar, amt int)")
    cur.execute("insert into src values (1, 'A', 100), (9, 'Z', 900)")
    try:
        cur.execute("merge into tgt using src on tgt.k = src.k when matched then update set tgt.name = src.name when not matched then insert (k, nocol) values (src.k, src.name)")
        failed = False
    except Exception:  # noqa: BLE001
        failed = True
    cur.execute("select k, name, amt from tgt order by k")
    after = cur.fetchall()
    t.case("atomic:failing insert clause after update clause", ("atomic",), failed and after == [(1, "a", 10), (2, "b", 20)], function="fakesnow.transforms_merge.merge", case={}, expected="statement fails and the target is unchanged", actual=f"failed={failed} target={after}")
    return t.result(bound=f"{len(TARGETS)} targets x {len(SOURCES)} sources x {len(CLAUSE_LISTS)} clause lists x {len(forms)} forms")


def replay(case, repo):
    c = case.get("case") or {}
    if "clauses" in c:
        fs = new_instance(repo)
        conn = fs.connect("db1", "s1")
        try:
            ok, detail = one(conn, c["target"], c["source"], c["clauses"], c["form"])
            return bool(ok), detail
        except Exception as e:  # noqa: BLE001
            return False, f"{type(e).__name__}: {e}"
    r = run("quick", 0, repo)
    bad = [f for f in r["failures"] if f["case_id"] == case.get("case_id")]
    return (not bad), (bad[0]["actual"] if bad else "ok")
