"""Bounded stand-in for C06 on the real stack: after statements of every kind, cursor.description exists, has one entry per
result column with names equal to the DictCursor keys, type codes agreeing with the Python values fetched, equals describe(q),
and reading it changes neither the pending result set nor the session."""
from __future__ import annotations

import datetime
import decimal

from .common import Tally, new_instance

# snowflake type codes: 0 FIXED 1 REAL 2 TEXT 3 DATE 5 VARIANT 6 TIMESTAMP_LTZ 7 TIMESTAMP_TZ 8 TIMESTAMP_NTZ 9 OBJECT 10 ARRAY 11 BINARY 12 TIME 13 BOOLEAN
def py_ok(code, scale, v):
    if v is None:
        return True
    if code == 0:
        return (isinstance(v, int) and not isinstance(v, bool)) if (scale or 0) == 0 else isinstance(v, decimal.Decimal)
    return {1: float, 2: str, 3: datetime.date, 5: str, 7: datetime.datetime, 8: datetime.datetime, 11: (bytes, bytearray), 12: datetime.time, 13: bool}.get(code, object) and isinstance(
        v, {1: float, 2: str, 3: datetime.date, 5: str, 7: datetime.datetime, 8: datetime.datetime, 11: (bytes, bytearray), 12: datetime.time, 13: bool}.get(code, object))


SETUP = [
    "create table t (i int, n number(10,2), f float, s varchar(20), d date, tm time, ts timestamp_ntz, tz timestamp_tz, b boolean, bin binary, v variant, big number(38,0))",
    "insert into t select 1, 1.25, 1.5, 'x', '2020-01-02', '01:02:03', '2020-01-02 03:04:05.123456', '2020-01-02 03:04:05+00:00', true, 'ab'::binary, parse_json('{\"a\":1}'), 12345678901234567890",
    "insert into t (i) values (null)",
]
QUERIES = [
    "select * from t",
    "select i, i as \"quoted name\", i as i2 from t",
    "select i + 1 as e, n * 2 as m, f / 2 as h, s || 'y' as c, count(*) over () as w from t",
    "select count(*) as c, sum(i) as si, avg(i) as av, min(s) as ms, max(d) as md from t",
    "select 1 as one, 'a' as a, 1.5 as x, true as tt, null as nn, current_date as cd",
    "select v:a as va, v['a']::int as vi, to_json(v) as tj from t",
    "select i from t where false",
    "insert into t (i) values (5)",
    "update t set s = 'z' where i = 5",
    "delete from t where i = 5",
    "create table t2 (x int)",
    "create view v2 as select i from t",
    "alter table t2 add column y int",
    "drop view v2",
    "drop table t2",
    "create schema sc2",
    "drop schema sc2",
    "use database db1",
    "use schema s1",
    "begin",
    "commit",
    "rollback",
    "set myvar = 5",
    "select $myvar as mv",
    "unset myvar",
    "show tables",
    "show schemas",
    "describe table t",
    "truncate table t2x",
    "select random(42) as r",
    "select i from t sample (50) seed (1)",
    "comment on table t is 'c'",
    "merge into t using (select 9 as i) s on t.i = s.i when not matched then insert (i) values (s.i)",
    "select %s as p",
]


def run(tier="quick", seed=0, repo="/repo"):
    import snowflake.connector.cursor as sfc

    t = Tally(
        rule="each statement of the list (queries over every column type and expression form, DML, DDL, USE, BEGIN/COMMIT/ROLLBACK, SET/UNSET, SHOW/DESCRIBE, seeded RANDOM/SAMPLE, MERGE, bound parameter) "
        "x the point at which description is read (before / in the middle of / after fetching): description has one entry per result column, names == DictCursor keys, type codes agree with the fetched Python values, "
        "== describe(q) for queries, and reading it leaves the pending rows and the session context alone; distinct = distinct (statement, read point)",
        exhaustive=True,
    )
    for point in ("before", "middle", "after"):
        fs = new_instance(repo)
        conn = fs.connect("db1", "s1")
        c0 = conn.cursor()
        for s in SETUP:
            c0.execute(s)
        c0.execute("create table t2x (x int)")
        for q in QUERIES:
            params = ("pv",) if "%s" in q else None
            cur = conn.cursor()
            dcur = conn.cursor(sfc.DictCursor)
            ok, detail = True, "ok"
            try:
                cur.execute(q, params)
                n = cur.rowcount
                ctx = (conn.database, conn.schema)
                rows = []
                if point == "middle":
                    first = cur.fetchone()
                    rows = [first] if first is not None else []
                elif point == "after":
                    rows = cur.fetchall()
                desc = cur.description
                if (conn.database, conn.schema) != ctx:
                    ok, detail = False, "description changed the session context"
                rest = cur.fetchall()
                allrows = rows + rest
                if ok and q.startswith("select") and "where false" not in q and len(allrows) == 0 and "sample" not in q:
                    ok, detail = False, "reading description consumed the result set"
                if ok and desc is None:
                    ok, detail = False, "description is None"
                if ok and allrows and any(len(r) != len(desc) for r in allrows):
                    ok, detail = False, f"{len(desc)} description entries for rows of width {len(allrows[0])}"
                if ok:
                    for r in allrows:
                        for d, v in zip(desc, r):
                            if not py_ok(d.type_code, d.scale, v):
                                ok, detail = False, f"column {d.name}: type_code {d.type_code} scale {d.scale} but value {v!r} ({type(v).__name__})"
                if ok and q.lower().startswith(("select", "show", "describe")) and "random" not in q and "sample" not in q:
                    # names == DictCursor keys
                    dcur.execute(q, params)
                    drow = dcur.fetchone()
                    if drow is not None and list(drow.keys()) != [d.name for d in desc]:
                        ok, detail = False, f"DictCursor keys {list(drow.keys())} != description names {[d.name for d in desc]}"
                if ok and q.startswith("select") and "$myvar" not in q:
                    dd = conn.cursor().describe(q, params)
                    if [(d.name, d.type_code, d.precision, d.scale) for d in dd] != [(d.name, d.type_code, d.precision, d.scale) for d in desc]:
                        ok, detail = False, f"describe(q) {[(d.name, d.type_code) for d in dd]} != description {[(d.name, d.type_code) for d in desc]}"
            except Exception as e:  # noqa: BLE001
                ok, detail = False, f"{type(e).__name__}: {str(e)[:160]}"
            t.case(f"desc:{point}:{q[:60]}", (point, q), ok, function="fakesnow.cursor.FakeSnowflakeCursor._describe_last_sql", case={"sql": q, "read": point}, expected="description consistent", actual=detail, sample_every=13)
    # the same statement text executed again after the schema changed: description follows the new result, on the same cursor
    fs = new_instance(repo)
    conn = fs.connect("db1", "s1")
    cur = conn.cursor()
    steps = [
        ("create or replace table evolve (a int)", None),
        ("select * from evolve", [("A", 0)]),
        ("alter table evolve add column b varchar", None),
        ("select * from evolve", [("A", 0), ("B", 2)]),
        ("create or replace table evolve (a varchar, c date, d number(20,12))", None),
        ("select * from evolve", [("A", 2), ("C", 3), ("D", 0)]),
        ("drop table evolve", None),
        ("create table evolve (z boolean)", None),
        ("select * from evolve", [("Z", 13)]),
    ]
    ddl_cur = conn.cursor()  # the schema is changed through another cursor: `cur` sees the very same text again and again
    for i, (sql, want) in enumerate(steps):
        try:
            if want is None:
                ddl_cur.execute(sql)
                t.case(f"desc-reexec:{i}:{sql[:50]}", ("reexec", i), True, function="fakesnow.cursor.FakeSnowflakeCursor.description", case={"step": i, "sql": sql}, expected="ddl", actual="ok")
                continue
            cur.execute(sql)
            d1 = [(d.name, d.type_code) for d in cur.description]
            d2 = [(d.name, d.type_code) for d in cur.description]  # reading twice gives the same
            ok = (want is None or d1 == want) and d1 == d2
            detail = repr(d1)
        except Exception as e:  # noqa: BLE001
            ok, detail = False, f"{type(e).__name__}: {str(e)[:160]}"
        t.case(f"desc-reexec:{i}:{sql[:50]}", ("reexec", i), ok, function="fakesnow.cursor.FakeSnowflakeCursor.description", case={"step": i, "sql": sql}, expected=repr(want), actual=detail)
    # a re-used cursor whose next statement is replaced by the no-op (nop_regexes): description is the status row's, at once
    fs_n = new_instance(repo, nop_regexes=[r"^call\s", r"^grant\s"])
    cn = fs_n.connect("db1", "s1")
    cur_n = cn.cursor()
    for i, (sql, want) in enumerate([
        ("select 1 as a, 'x' as b", [("A", 0), ("B", 2)]),
        ("call some_proc()", [("status", 2)]),
        ("select 2.5::number(5,1) as c", [("C", 0)]),
        ("grant select on t to role r", [("status", 2)]),
        ("call other()", [("status", 2)]),
    ]):
        try:
            cur_n.execute(sql)
            got = [(d.name, d.type_code) for d in cur_n.description]
            rows = cur_n.fetchall()
            ok = got == want and (not rows or len(rows[0]) == len(got))
            detail = f"{got} rows {rows}"
        except Exception as e:  # noqa: BLE001
            ok, detail = False, f"{type(e).__name__}: {str(e)[:160]}"
        t.case(f"desc-nop:{i}:{sql[:40]}", ("desc-nop", i), ok, function="fakesnow.cursor.FakeSnowflakeCursor.description", case={"step": i, "sql": sql}, expected=repr(want), actual=detail)
    # NUMBER(p,s) over the whole range of scales (one and two digits): precision and scale reported as declared, values are Decimals
    for p_, s_ in [(38, 0), (10, 2), (18, 9), (20, 10), (30, 12), (38, 37), (11, 11)]:
        q = f"select 0::number({p_},{s_}) as v"
        try:
            cur.execute(q)
            d = cur.description[0]
            ok, detail = (d.type_code, d.precision, d.scale) == (0, p_, s_), f"type_code {d.type_code} precision {d.precision} scale {d.scale}"
        except Exception as e:  # noqa: BLE001
            ok, detail = False, f"{type(e).__name__}: {str(e)[:160]}"
        t.case(f"desc-number:{p_},{s_}", ("number", p_, s_), ok, function="fakesnow.types.describe_as_rowtype", case={"sql": q}, expected=f"FIXED precision {p_} scale {s_}", actual=detail)
    return t.result(bound=f"{len(QUERIES)} statements x 3 read points; 9-step schema evolution re-executing the same text; 5 statements alternating with no-op'd ones on one cursor; 7 NUMBER(p,s) shapes")


def replay(case, repo):
    r = run("quick", 0, repo)
    bad = [f for f in r["failures"] if f["case_id"] == case.get("case_id")]
    return (not bad), (bad[0]["actual"] if bad else "ok")
