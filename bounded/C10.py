"""Bounded stand-in for C10 on the real stack: the rewritten Snowflake functions against reference values written from the
Snowflake documentation, in several expression contexts (select list, WHERE, nested, DML, view, CTE)."""
from __future__ import annotations

import datetime
import decimal
import hashlib
import re

from .common import Tally, new_instance

D = decimal.Decimal
dt = datetime.datetime
date = datetime.date


def regexp_substr(subject, pattern, position=1, occurrence=1, params="c", group=None):
    flags = re.I if "i" in params else 0
    s = subject[position - 1:]
    ms = list(re.finditer(pattern, s, flags))
    if len(ms) < occurrence:
        return None
    m = ms[occurrence - 1]
    if group is None:
        group = 1 if ("e" in params and m.re.groups) else 0
    return m.group(group)


CASES = []


def add(sql, want, tag):
    CASES.append((sql, want, tag))


# REGEXP_SUBSTR
for subj, pat, extra, kw in [
    ("hello world", "o", "", {}),
    ("hello world", "o", ", 6", {"position": 6}),
    ("hello world", "o", ", 1, 2", {"occurrence": 2}),
    ("hello world", "O", ", 1, 1, 'i'", {"params": "i"}),
    ("abc", "(a)(b)", ", 1, 1, 'e'", {"params": "e"}),
    ("abc", "(a)(b)", ", 1, 1, 'e', 2", {"params": "e", "group": 2}),
    ("abc", "(a)(b)", ", 1, 1, 'c', 1", {"params": "c", "group": 1}),
    ("abc", "(a)(b)", ", 1, 1, 'i', 2", {"params": "i", "group": 2}),
    ("abc", "x", "", {}),
    ("a1b22c333", "\\\\d+", ", 1, 3", {"occurrence": 3}),
]:
    add(f"regexp_substr('{subj}', '{pat}'{extra})", regexp_substr(subj, pat.replace("\\\\", "\\"), **kw), "regexp_substr")
# REGEXP_REPLACE
add("regexp_replace('a1b22', '\\\\d', 'X')", "aXbXX", "regexp_replace")
add("regexp_replace('a1b22', '\\\\d+')", "ab", "regexp_replace")
add("regexp_replace(regexp_replace('a1b22', '\\\\d', 'X'), 'X', 'y')", "aybyy", "regexp_replace")
add("regexp_replace('aaa', 'a', 'b')", "bbb", "regexp_replace")
# the long forms (<position>, <occurrence>, <parameters>): the documented value, or rejected - never another value
add("regexp_replace('aaa', 'a', 'b', 1, 2)", "aba", "regexp_replace-may-reject")
add("regexp_replace('aaa', 'a', 'b', 2)", "abb", "regexp_replace-may-reject")
add("regexp_replace('aaa', 'a', 'b', 1, 0)", "bbb", "regexp_replace-may-reject")
add("regexp_replace('aaa', 'a', 'b', 1, 3)", "aab", "regexp_replace-may-reject")
add("regexp_replace('aAa', 'a', 'b', 1, 0, 'i')", "bbb", "regexp_replace-may-reject")
# SPLIT / TRIM
add("split('a,b', ',')[1]::varchar", "b", "split")
add("trim('  x  ')", "x", "trim")
add("trim(parse_json('{\"k\":\" v \"}'):k)", "v", "trim")
# TO_DATE / TO_TIMESTAMP
add("to_date('2024-02-29')", date(2024, 2, 29), "to_date")
add("to_date(to_timestamp(86399))", date(1970, 1, 1), "to_date")
add("to_date(to_timestamp(-1))", date(1969, 12, 31), "to_date")
add("to_timestamp(0)", dt(1970, 1, 1), "to_timestamp")
add("to_timestamp(-1)", dt(1969, 12, 31, 23, 59, 59), "to_timestamp")
add("to_timestamp('2020-01-02 03:04:05')", dt(2020, 1, 2, 3, 4, 5), "to_timestamp")
add("to_timestamp_ntz('2020-01-02 03:04:05')", dt(2020, 1, 2, 3, 4, 5), "to_timestamp")
# a string holding an integer is an epoch count whose unit depends on its magnitude (documented thresholds 31536000000 / ...000 / ...000000):
# below the first threshold it is SECONDS, however many digits it has
add("to_timestamp('0')", dt(1970, 1, 1), "to_timestamp")
add("to_timestamp('-1')", dt(1969, 12, 31, 23, 59, 59), "to_timestamp")
add("to_timestamp('1700000000')", dt(2023, 11, 14, 22, 13, 20), "to_timestamp")
add("to_timestamp('9999999999')", dt(2286, 11, 20, 17, 46, 39), "to_timestamp")
add("to_timestamp('10000000000')", dt(2286, 11, 20, 17, 46, 40), "to_timestamp")
add("to_timestamp('20000000000')", dt(2603, 10, 11, 11, 33, 20), "to_timestamp")
add("to_timestamp('31535999999')", dt(2969, 5, 2, 23, 59, 59), "to_timestamp")
add("to_timestamp(10000000000)", dt(2286, 11, 20, 17, 46, 40), "to_timestamp")
add("to_timestamp(31535999999)", dt(2969, 5, 2, 23, 59, 59), "to_timestamp")
# at and above it: milliseconds / microseconds / nanoseconds - the documented value, or rejected
add("to_timestamp('31536000000')", dt(1971, 1, 1), "to_timestamp-may-reject")
add("to_timestamp('1700000000000')", dt(2023, 11, 14, 22, 13, 20), "to_timestamp-may-reject")
add("to_timestamp('1700000000000000')", dt(2023, 11, 14, 22, 13, 20), "to_timestamp-may-reject")
# TO_DECIMAL family
add("to_decimal('1.5')", D("2"), "to_decimal")
add("to_decimal('2.5')", D("3"), "to_decimal")
add("to_decimal('-2.5')", D("-3"), "to_decimal")
add("to_decimal('1.234', 10, 2)", D("1.23"), "to_decimal")
add("to_decimal('1.235', 10, 2)", D("1.24"), "to_decimal")
add("to_number('12', 5)", D("12"), "to_decimal")
add("to_numeric('99999', 5, 0)", D("99999"), "to_decimal")
add("try_to_decimal('abc')", None, "to_decimal")
add("try_to_number('1.5', 10, 1)", D("1.5"), "to_decimal")
add("try_to_decimal('123456', 5, 0)", None, "to_decimal")
# DATEADD / DATEDIFF
add("dateadd(day, 1, '2024-02-28'::date)", date(2024, 2, 29), "dateadd")
add("dateadd(month, 1, '2024-01-31'::date)", date(2024, 2, 29), "dateadd")
add("dateadd(year, 1, '2024-02-29'::date)", date(2025, 2, 28), "dateadd")
add("dateadd(week, 1, '1969-12-28'::date)", date(1970, 1, 4), "dateadd")
add("dateadd(quarter, 1, '2020-01-31'::date)", date(2020, 4, 30), "dateadd")
add("dateadd(hour, 1, '2020-01-01'::date)", dt(2020, 1, 1, 1, 0, 0), "dateadd")
add("dateadd(day, 1, '2020-01-01 10:00:00')", dt(2020, 1, 2, 10, 0, 0), "dateadd")
add("dateadd(day, -1, '2020-03-01 00:00:00'::timestamp)", dt(2020, 2, 29), "dateadd")
add("datediff(day, '2020-02-28', '2020-03-01')", 2, "datediff")
add("datediff(month, '2020-01-31', '2020-02-01')", 1, "datediff")
add("datediff(year, '2019-12-31', '2020-01-01')", 1, "datediff")
add("datediff(hour, '2020-01-01 23:59:00', '2020-01-02 00:01:00')", 1, "datediff")
add("datediff(day, '1970-01-01', '1969-12-31')", -1, "datediff")
# SHA2
for fn in ("sha2('abc')", "sha2('abc', 256)", "sha2_hex('abc')", "sha2_hex('abc', 256)"):
    add(fn, hashlib.sha256(b"abc").hexdigest(), "sha2")
add("sha2_binary('abc')", hashlib.sha256(b"abc").digest(), "sha2")
add("sha2('abc', 512)", hashlib.sha512(b"abc").hexdigest(), "sha2-unsupported-length")
add("sha2('abc', 224)", hashlib.sha224(b"abc").hexdigest(), "sha2-unsupported-length")
# optional-argument forms of the other functions: the documented value, or rejected
add("to_date('29/02/2024', 'DD/MM/YYYY')", date(2024, 2, 29), "to_date-may-reject")
add("to_timestamp(1700000000000, 3)", dt(2023, 11, 14, 22, 13, 20), "to_timestamp-may-reject")
add("to_decimal('1,234.5', '9,999.9')", D("1235"), "to_decimal-may-reject")
add("trim('xxhixx', 'x')", "hi", "trim")
add("ltrim('  x  ') || '|'", "x  |", "trim")
add("rtrim('  x  ') || '|'", "  x|", "trim")
add("ltrim('xxhixx', 'x')", "hixx", "trim")
add("datediff(week, '2020-01-01', '2020-01-15')", 2, "datediff")
add("dateadd(minute, 90, '2020-01-01'::date)", dt(2020, 1, 1, 1, 30, 0), "dateadd")
add("dateadd(month, -1, '2024-03-31'::date)", date(2024, 2, 29), "dateadd")
# EQUAL_NULL
add("equal_null(1, 1)", True, "equal_null")
add("equal_null(null, null)", True, "equal_null")
add("equal_null(1, null)", False, "equal_null")
add("equal_null('a', 'b')", False, "equal_null")
# casts
add("'1.5'::float", 1.5, "cast")
add("1::number(10,2)", D("1.00"), "cast")
add("'2020-01-02 03:04:05.123456'::timestamp_ntz", dt(2020, 1, 2, 3, 4, 5, 123456), "cast")
add("2.5::int", 3, "cast")
add("3.5::int", 4, "cast")
add("-2.5::int", -3, "cast")
# IDENTIFIER / VALUES
add("(select count(*) from identifier('ftab'))", 2, "identifier")
add("(select column2 from (values (1, 'x'), (2, 'y')) where column1 = 2)", "y", "values")
add("(select column1 + column3 from (values (1, 'x', 10)))", 11, "values")
# ARRAY_AGG
add("(select array_agg(x) within group (order by x desc) from ftab)", "[2,1]", "array_agg")
add("(select array_agg(x) from (select x from ftab order by x))", "[1,2]", "array_agg")
# alias in join
add("(select a.x from ftab a join ftab b on a.x = b.x where a.x = 1)", 1, "join")


def norm(v):
    if isinstance(v, str) and v.startswith("[") and v.endswith("]"):
        return v.replace(" ", "")
    if isinstance(v, (bytearray, memoryview)):
        return bytes(v)
    return v


def eq(got, want):
    got, want = norm(got), norm(want)
    if isinstance(want, D):
        return got is not None and D(str(got)) == want
    if isinstance(want, bool) or isinstance(got, bool):
        return got is want
    if type(want) is date and isinstance(got, dt):
        return False  # a DATE is expected, a timestamp is a different result type
    return got == want


CONTEXTS = {
    "select": lambda e: f"select {e} as v",
    "nested": lambda e: f"select coalesce({e}, {e}) as v",
    "where": lambda e: f"select count(*) from ftab where x = 1 and ({e}) is not distinct from ({e})",
    "cte": lambda e: f"with c as (select {e} as v) select v from c",
    "subquery": lambda e: f"select v from (select {e} as v, x from ftab) where x = 2",
}


def run(tier="quick", seed=0, repo="/repo"):
    t = Tally(
        rule="each (function call, documented value) of the list (REGEXP_SUBSTR positions/occurrences/groups/parameters, REGEXP_REPLACE incl. nested, SPLIT, TRIM, TO_DATE, TO_TIMESTAMP[_NTZ] incl. pre-1970, TO_DECIMAL/NUMBER/NUMERIC and TRY_ "
        "at rounding midpoints and precision limits, DATEADD/DATEDIFF across month / leap-year / epoch boundaries and all common parts, SHA2 family, EQUAL_NULL, numeric/float/timestamp casts, IDENTIFIER(), VALUES columnN, ARRAY_AGG [WITHIN GROUP], "
        "alias reuse in JOIN ON) x expression context (select list, nested call, WHERE, CTE, subquery), plus DML / view contexts; value and Python type must match, an unsupported form must be rejected not answered wrongly; distinct = distinct (call, context)",
        exhaustive=True,
    )
    fs = new_instance(repo)
    conn = fs.connect("db1", "s1")
    cur = conn.cursor()
    cur.execute("create table ftab (x int)")
    cur.execute("insert into ftab values (1), (2)")
    ctxs = list(CONTEXTS) if tier != "quick" else ["select", "nested", "cte"]
    for sql, want, tag in CASES:
        for cname in ctxs:
            if cname == "where":
                full, wv = CONTEXTS[cname](sql), 1
            else:
                full, wv = CONTEXTS[cname](sql), want
            try:
                cur.execute(full)
                rows = cur.fetchall()
                got = rows[0][0] if rows else "norow"
                ok = eq(got, wv)
                detail = f"{got!r} ({type(got).__name__})"
            except Exception as e:  # noqa: BLE001
                # rejecting an unsupported form is allowed by the property; answering it wrongly is not
                ok = tag.endswith(("unsupported-length", "-may-reject"))
                detail = f"rejected: {type(e).__name__}: {str(e)[:100]}"
            t.case(f"fn:{tag}:{cname}:{sql}", (sql, cname), ok, function="fakesnow.transforms", case={"sql": full}, expected=repr(wv), actual=detail, sample_every=41)
    # DML and view contexts for a few
    try:
        cur.execute("create table fout (d date, s varchar)")
        cur.execute("insert into fout select dateadd(day, 1, '2024-02-28'::date), regexp_substr('hello', 'l+')")
        cur.execute("create view fv as select to_decimal('1.5') as dd, sha2('abc') as h")
        cur.execute("select d, s from fout")
        r1 = cur.fetchall()
        cur.execute("select dd, h from fv")
        r2 = cur.fetchall()
        ok = r1 == [(date(2024, 2, 29), "ll")] and r2 == [(D("2"), hashlib.sha256(b"abc").hexdigest())]
        detail = f"{r1} {r2}"
    except Exception as e:  # noqa: BLE001
        ok, detail = False, f"{type(e).__name__}: {str(e)[:160]}"
    t.case("fn:contexts:dml+view", ("dmlview",), ok, function="fakesnow.transforms", case={}, expected="same values inside INSERT..SELECT and a view", actual=detail)
    # RANDOM(seed): deterministic, within signed 64 bit; SAMPLE ... SEED: deterministic
    try:
        cur.execute("select random(42)")
        a = cur.fetchall()
        cur.execute("select random(42)")
        b = cur.fetchall()
        cur.execute("select random()")
        c = cur.fetchall()[0][0]
        ok = a == b and isinstance(a[0][0], int) and -(2**63) <= a[0][0] < 2**63 and isinstance(c, int)
        detail = f"{a} {b} {c}"
    except Exception as e:  # noqa: BLE001
        ok, detail = False, f"{type(e).__name__}: {str(e)[:160]}"
    t.case("fn:random:seeded", ("random",), ok, function="fakesnow.transforms.random", case={}, expected="same value for the same seed, signed 64-bit integer", actual=detail)
    return t.result(bound=f"{len(CASES)} calls x {len(ctxs)} contexts")


def replay(case, repo):
    r = run("thorough", 0, repo)
    bad = [f for f in r["failures"] if f["case_id"] == case.get("case_id")]
    return (not bad), (bad[0]["actual"] if bad else "ok")
