"""Bounded stand-in for C05 on the real stack (DuckDB + pyarrow in process): every fetch-call sequence up to a
stated length over small result shapes, tuple and dict cursors.  Labelled bounded; never counted as proved."""
from __future__ import annotations

import itertools

from .common import Tally, new_instance

OPS = ["one", "many1", "many2", "many", "all", "as2", "as3"]


def shapes(tier):
    rows = [0, 1, 3, 5] if tier == "quick" else [0, 1, 2, 3, 5, 8]
    cols = [["A"], ["A", "B"], ["A", "A"], ['"a b"', "A", "A"]]
    for n in rows:
        for c in cols:
            yield n, c


def build_sql(n, cols):
    sel = ", ".join(f"column{i + 1} as {c}" for i, c in enumerate(cols))
    if n == 0:
        vals = ", ".join(f"({', '.join(str(j) for j in range(len(cols)))})" for _ in range(1))
        return f"select {sel} from (values {vals}) where false", []
    data = [tuple(r * 10 + j for j in range(len(cols))) for r in range(n)]
    vals = ", ".join("(" + ", ".join(str(x) for x in row) + ")" for row in data)
    return f"select {sel} from (values {vals}) order by 1", data


def run_seq(conn, dictcur, n, cols, seq):
    """returns (ok, detail)"""
    import snowflake.connector

    cur = conn.cursor(snowflake.connector.cursor.DictCursor) if dictcur else conn.cursor()
    sql, data = build_sql(n, cols)
    cur.execute(sql)
    if cur.rowcount != n:
        return False, f"rowcount {cur.rowcount} != {n}"
    names = [d.name for d in cur.description]
    distinct = len(set(names)) == len(names)
    pos = 0
    delivered = []
    for op in seq:
        if op == "as2":
            cur.arraysize = 2
            continue
        if op == "as3":
            cur.arraysize = 3
            continue
        if op == "one":
            r = cur.fetchone()
            got = [] if r is None else [r]
            k = 1
        elif op == "many1":
            got, k = cur.fetchmany(1), 1
        elif op == "many2":
            got, k = cur.fetchmany(2), 2
        elif op == "many":
            k = cur.arraysize
            got = cur.fetchmany()
        else:
            got, k = cur.fetchall(), n
        want = data[pos: pos + k] if op != "all" else data[pos:]
        pos = min(n, pos + (k if op != "all" else n))
        if dictcur:
            if not distinct:
                # keys cannot repeat in a dict: only the count and key names are checked
                if len(got) != len(want):
                    return False, f"{op}: {len(got)} rows, expected {len(want)}"
                continue
            w2 = [dict(zip(names, row)) for row in want]
            if got != w2 or any(list(g.keys()) != names for g in got):
                return False, f"{op}: got {got!r}, expected {w2!r}"
        else:
            if [tuple(g) for g in got] != want or any(len(g) != len(cols) for g in got):
                return False, f"{op}: got {got!r}, expected {want!r}"
        delivered.extend(got)
    # drain: afterwards nothing more, for ever
    rest = cur.fetchall()
    if len(rest) != n - pos:
        return False, f"final fetchall returned {len(rest)} rows, expected {n - pos}"
    if cur.fetchone() is not None or cur.fetchmany(3) != [] or cur.fetchall() != []:
        return False, "rows after exhaustion"
    return True, ""


def run(tier="quick", seed=0, repo="/repo"):
    maxlen = 2 if tier == "quick" else 4
    t = Tally(
        rule="all sequences of <= %d fetch operations from %s x result shapes (rows x column lists incl. repeated/quoted names) x {tuple, dict} cursor on the real stack; "
        "a case is non-trivial when at least one row is delivered; distinct = distinct (shape, cursor kind, sequence)" % (maxlen, OPS),
        exhaustive=True,
    )
    fs = new_instance(repo)
    conn = fs.connect(database="db1", schema="s1")
    for n, cols in shapes(tier):
        for dictcur in (False, True):
            for L in range(0, maxlen + 1):
                for seq in itertools.product(OPS, repeat=L):
                    if L and seq[-1] in ("as2", "as3"):
                        continue
                    case = {"rows": n, "cols": cols, "dict": dictcur, "seq": list(seq)}
                    try:
                        ok, detail = run_seq(conn, dictcur, n, cols, seq)
                    except Exception as e:  # noqa: BLE001
                        ok, detail = False, f"{type(e).__name__}: {e}"
                    cid = f"fetch:{n}x{'/'.join(cols)}:{'dict' if dictcur else 'tuple'}:{'-'.join(seq)}"
                    t.case(cid, (n, tuple(cols), dictcur, seq) if n > 0 and L > 0 else None, ok, function="fakesnow.cursor.FakeSnowflakeCursor.fetchmany", case=case, expected="rows in order, once, full width", actual=detail or "ok", sample_every=997)
    # no result set yet / replaced result set
    import snowflake.connector

    for dictcur in (False, True):
        cur = conn.cursor(snowflake.connector.cursor.DictCursor) if dictcur else conn.cursor()
        for name, call, exc in (("fetchone", cur.fetchone, TypeError), ("fetchmany", cur.fetchmany, TypeError), ("fetchall", cur.fetchall, TypeError), ("fetch_pandas_all", cur.fetch_pandas_all, snowflake.connector.NotSupportedError)):
            try:
                call()
                ok, detail = False, "no exception"
            except exc as e:
                ok, detail = True, repr(e)
            except Exception as e:  # noqa: BLE001
                ok, detail = False, repr(e)
            t.case(f"noresult:{name}:{dictcur}", ("noresult", name, dictcur), ok, case={"call": name, "dict": dictcur}, expected=exc.__name__, actual=detail)
        cur.execute("select 1 as x union all select 2 order by 1")
        cur.fetchone()
        cur.execute("select 7 as y")
        got = cur.fetchall()
        want = [{"Y": 7}] if dictcur else [(7,)]
        t.case(f"replace:{dictcur}", ("replace", dictcur), got == want and cur.rowcount == 1, case={"dict": dictcur}, expected=want, actual=got)
        cur.execute("select column1 as a, column2 as b from (values (1,'x'),(2,'y')) order by 1")
        df = cur.fetch_pandas_all()
        okp = list(df.columns) == ["A", "B"] and df.values.tolist() == [[1, "x"], [2, "y"]] and cur.rowcount == 2
        t.case(f"pandas:{dictcur}", ("pandas", dictcur), okp, case={"dict": dictcur}, expected="2 rows A,B", actual=df.values.tolist())
    # a cursor that is re-used: whatever was fetched from the previous result, the next statement's result is handed out from its
    # first row, completely - for every kind of next statement (query, DML status, DDL status, no-op'd statement, USE, failing)
    fs2 = new_instance(repo, nop_regexes=[r"^call\s", r"alter session"])
    conn2 = fs2.connect(database="db1", schema="s1")
    conn2.cursor().execute("create or replace table reuse_t (i int)")
    NEXT = [
        ("query", "select column1 as a from (values (10),(20),(30)) order by 1"),
        ("dml", "insert into reuse_t values (1)"),
        ("ddl", "create or replace table reuse_u (i int)"),
        ("nop", "call some_procedure()"),
        ("nop2", "ALTER SESSION SET x = 1"),
        ("use", "use schema s1"),
        ("txn", "begin"),
        ("empty", "select 1 as a where false"),
    ]
    PREV = [("partial", 1), ("drained", None), ("untouched", 0)]
    for dictcur in (False, True):
        for (nk, nsql), (pk, pn) in itertools.product(NEXT, PREV):
            fresh = conn2.cursor(snowflake.connector.cursor.DictCursor) if dictcur else conn2.cursor()
            fresh.execute(nsql)
            want_rows, want_rc = fresh.fetchall(), fresh.rowcount
            if nk == "txn":
                conn2.cursor().execute("rollback")
            cur = conn2.cursor(snowflake.connector.cursor.DictCursor) if dictcur else conn2.cursor()
            cur.execute("select column1 as z from (values (1),(2),(3),(4)) order by 1")
            if pn is None:
                cur.fetchall()
            elif pn:
                cur.fetchmany(pn)
                cur.fetchone()
            try:
                cur.execute(nsql)
                first = cur.fetchone()
                rest = cur.fetchall()
                got_rows = ([] if first is None else [first]) + rest
                ok = got_rows == want_rows and cur.rowcount == want_rc and cur.fetchone() is None
                detail = f"rows {got_rows!r} rowcount {cur.rowcount}"
            except Exception as e:  # noqa: BLE001
                ok, detail = False, f"{type(e).__name__}: {e}"
            if nk == "txn":
                conn2.cursor().execute("rollback")
            t.case(f"reuse:{nk}:after-{pk}:{'dict' if dictcur else 'tuple'}", ("reuse", nk, pk, dictcur), ok, function="fakesnow.cursor.FakeSnowflakeCursor.execute",
                   case={"next": nsql, "previous": pk, "dict": dictcur}, expected=f"rows {want_rows!r} rowcount {want_rc} (as on a fresh cursor)", actual=detail)
    conn2.close()
    conn.close()
    return t.result(bound=f"fetch sequences of length <= {maxlen}; rows in {sorted({n for n, _ in shapes(tier)})}; 4 column lists; 2 cursor kinds; re-used cursor: 8 statement kinds (incl. no-op patterns) x 3 states of the previous result x 2 cursor kinds")


def replay(case, repo):
    fs = new_instance(repo)
    conn = fs.connect(database="db1", schema="s1")
    c = case.get("case") or {}
    if "seq" in c:
        try:
            ok, detail = run_seq(conn, c["dict"], c["rows"], c["cols"], c["seq"])
        except Exception as e:  # noqa: BLE001
            ok, detail = False, f"{type(e).__name__}: {e}"
        return ok, detail
    r = run("quick", 0, repo)
    bad = [f for f in r["failures"] if f["case_id"] == case.get("case_id")]
    return (not bad), (bad[0]["actual"] if bad else "ok")
