"""Bounded stand-in for C13 on the real stack: statement-level interleavings of two transactional scripts on two
connections (non-conflicting writes), checked against a reference model of snapshot-free read-committed visibility:
uncommitted writes are visible only to their own connection (through all its cursors), COMMIT publishes them together,
ROLLBACK removes them, a failing statement inside a transaction keeps it open, COMMIT/ROLLBACK outside one are no-ops."""
from __future__ import annotations

import itertools

from .common import Tally, new_instance

SCRIPTS = [
    ["begin", "ins", "ins", "commit"],
    ["begin", "ins", "rollback"],
    ["ins", "begin", "ins", "bad", "ins", "commit"],
    ["commit", "rollback", "ins"],
    ["begin", "ins", "api_commit"],
    ["begin", "ins", "api_rollback", "ins"],
    ["begin", "ins", "badrt", "ins", "commit"],
]


def interleavings(a, b):
    if not a:
        yield [("B", x) for x in b]
        return
    if not b:
        yield [("A", x) for x in a]
        return
    for rest in interleavings(a[1:], b):
        yield [("A", a[0])] + rest
    for rest in interleavings(a, b[1:]):
        yield [("B", b[0])] + rest


def run_schedule(repo, sa, sb, sched, model="rc"):
    """model 'rc': the property's visibility (a commit is visible to every other connection at once);
    model 'si': DuckDB's snapshot isolation (a connection inside its own transaction keeps its snapshot)"""
    fs = new_instance(repo)
    conns = {"A": fs.connect("db1", "s1"), "B": fs.connect("db1", "s1")}
    obs = fs.connect("db1", "s1")
    conns["A"].cursor().execute("create table ta (x int)")
    conns["A"].cursor().execute("create table tb (x int)")
    tbl = {"A": "ta", "B": "tb"}
    committed = {"A": [], "B": []}
    pending = {"A": None, "B": None}
    snapshot = {"A": None, "B": None}  # what the connection's open transaction saw of the others when it began
    counter = {"A": 0, "B": 0}
    for who, op in sched:
        c = conns[who]
        cur = c.cursor()
        if op == "begin":
            cur.execute("begin")
            if pending[who] is None:
                pending[who] = []
                snapshot[who] = {k: list(v) for k, v in committed.items()}
        elif op == "ins":
            counter[who] += 1
            cur.execute(f"insert into {tbl[who]} values ({counter[who]})")
            (pending[who] if pending[who] is not None else committed[who]).append(counter[who])
        elif op == "bad":
            try:
                cur.execute("insert into missing_table values (1)")
                return False, "bad statement did not fail"
            except Exception as e:  # noqa: BLE001
                if getattr(e, "errno", None) != 2003:
                    return False, f"bad statement: {type(e).__name__} {e}"
        elif op == "badrt":
            # a statement that fails while running (a value that does not fit the column), not because of what it refers to
            try:
                cur.execute(f"insert into {tbl[who]} values ('not a number')")
                return False, "badrt statement did not fail"
            except Exception:  # noqa: BLE001
                pass
        elif op in ("commit", "api_commit"):
            if op == "commit":
                cur.execute("commit")
                if cur.fetchall() != [("Statement executed successfully.",)]:
                    return False, "commit status row"
            else:
                c.commit()
            if pending[who] is not None:
                committed[who] += pending[who]
                pending[who] = None
                snapshot[who] = None
        elif op in ("rollback", "api_rollback"):
            if op == "rollback":
                cur.execute("rollback")
                if cur.fetchall() != [("Statement executed successfully.",)]:
                    return False, "rollback status row"
            else:
                c.rollback()
            pending[who] = None
            snapshot[who] = None
        # visibility after every step
        for viewer_name, viewer in (("A", conns["A"]), ("B", conns["B"]), ("O", obs)):
            for owner in ("A", "B"):
                base = committed[owner]
                if model == "si" and viewer_name in snapshot and snapshot[viewer_name] is not None and viewer_name != owner:
                    base = snapshot[viewer_name][owner]
                want = sorted(base + ((pending[owner] or []) if viewer_name == owner else []))
                for attempt in range(2):  # through two different cursors of the viewer
                    vc = viewer.cursor()
                    vc.execute(f"select x from {tbl[owner]} order by x")
                    got = [r[0] for r in vc.fetchall()]
                    if got != want:
                        return False, f"after {who}:{op}: {viewer_name} sees {tbl[owner]}={got}, expected {want}"
    return True, "ok"


def run(tier="quick", seed=0, repo="/repo"):
    t = Tally(
        rule="all statement-level interleavings of pairs of transactional scripts (BEGIN, INSERT, failing statement, COMMIT/ROLLBACK as SQL and via conn.commit()/rollback(), COMMIT/ROLLBACK outside a transaction) "
        "on two connections writing different tables, observed after every step by both connections (two cursors each) and a third one; distinct = distinct (script pair, schedule)",
        exhaustive=True,
    )
    pairs = list(itertools.combinations_with_replacement(range(len(SCRIPTS)), 2))
    if tier == "quick":
        pairs = [(0, 1), (2, 3), (4, 5), (0, 2), (6, 3)]
    for i, j in pairs:
        scheds = list(interleavings(SCRIPTS[i], SCRIPTS[j]))
        step = max(1, len(scheds) // (8 if tier == "quick" else 120))
        for k, sched in enumerate(scheds[::step]):
            prefix = "tx"
            try:
                ok, detail = run_schedule(repo, SCRIPTS[i], SCRIPTS[j], sched)
                if not ok and "sees" in detail:
                    ok2, _ = run_schedule(repo, SCRIPTS[i], SCRIPTS[j], sched, model="si")
                    if ok2:
                        prefix = "tx-snapshot"  # explained exactly by DuckDB's snapshot isolation
            except Exception as e:  # noqa: BLE001
                ok, detail = False, f"{type(e).__name__}: {str(e)[:200]}"
            try:
                if not ok and prefix == "tx" and ("badrt" in SCRIPTS[i] or "badrt" in SCRIPTS[j]):
                    # DuckDB aborts the whole transaction on a run-time failure: either the next statement is refused ...
                    if "transaction is aborted" in detail:
                        prefix = "tx-abort"
                    else:
                        # ... or COMMIT silently discards the earlier writes: the same schedule without the failing statement holds
                        strip = lambda sc: [o for o in sc if o != "badrt"]  # noqa: E731
                        ok3, _ = run_schedule(repo, strip(SCRIPTS[i]), strip(SCRIPTS[j]), [(w, o) for w, o in sched if o != "badrt"])
                        if ok3:
                            prefix = "tx-abort"
            except Exception as e:  # noqa: BLE001
                ok, detail = False, f"{type(e).__name__}: {str(e)[:200]}"
            cid = f"{prefix}:{i}x{j}:" + ",".join(f"{w}.{o}" for w, o in sched)
            t.case(cid, cid, ok, function="fakesnow.cursor.FakeSnowflakeCursor._execute", case={"a": SCRIPTS[i], "b": SCRIPTS[j], "schedule": sched}, expected="reference visibility", actual=detail, sample_every=23)
    # all cursors of a connection share its transaction, whichever thread asked for the cursor (strictly sequential use)
    import threading

    from .common import new_instance

    fs = new_instance(repo)
    conn, other = fs.connect("db1", "s1"), fs.connect("db1", "s1")
    conn.cursor().execute("create table shared_t (i int)")
    for mode in ("same-thread", "other-thread"):
        box = {}

        def get_cursor():
            box["cur"] = conn.cursor()

        if mode == "other-thread":
            th = threading.Thread(target=get_cursor)
            th.start()
            th.join()
        else:
            get_cursor()
        helper = box["cur"]
        try:
            conn.cursor().execute("delete from shared_t")
            conn.cursor().execute("begin")
            conn.cursor().execute("insert into shared_t values (1)")
            sees_own = helper.execute("select count(*) from shared_t").fetchall() == [(1,)]
            helper.execute("insert into shared_t values (2)")
            hidden = other.cursor().execute("select count(*) from shared_t").fetchall() == [(0,)]
            conn.cursor().execute("rollback")
            rolled_back = other.cursor().execute("select count(*) from shared_t").fetchall() == [(0,)]
            ok, detail = (sees_own and hidden and rolled_back), f"helper cursor sees the connection's uncommitted row: {sees_own}; its insert hidden from another connection before COMMIT: {hidden}; undone by ROLLBACK: {rolled_back}"
        except Exception as e:  # noqa: BLE001
            ok, detail = False, f"{type(e).__name__}: {str(e)[:200]}"
            try:
                conn.cursor().execute("rollback")
            except Exception:  # noqa: BLE001
                pass
        t.case(f"cursor-thread:{mode}", ("cursor-thread", mode), ok, function="fakesnow.conn.FakeSnowflakeConnection.cursor", case={"mode": mode}, expected="one transaction per connection, shared by all of its cursors", actual=detail)
    t.exhaustive = False
    return t.result(bound="script pairs %s; every %s-th interleaving of each pair; cursor obtained on the same / on another thread inside a transaction" % (pairs, "k"))


def replay(case, repo):
    c = case.get("case") or {}
    try:
        return run_schedule(repo, c["a"], c["b"], [tuple(x) for x in c["schedule"]])
    except Exception as e:  # noqa: BLE001
        return False, f"{type(e).__name__}: {e}"
