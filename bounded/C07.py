"""Bounded stand-in for C07 on the real stack: every way of referring to something missing / duplicate x statement kind x
session state gives the Snowflake error class and codes, sqlstate is set and reset, and nothing changes."""
from __future__ import annotations

from .common import Tally, new_instance

# (sql, errno, sqlstate)
CASES = [
    ("select * from nope", 2003, "42S02"),
    ("select * from s1.nope", 2003, "42S02"),
    ("select * from db1.s1.nope", 2003, "42S02"),
    ("select * from db1.nos.t", 2003, "42S02"),
    ("select * from nodb.s1.t", 2043, "02000"),
    ("select * from t join nope on true", 2003, "42S02"),
    ("select * from t where x in (select x from nope)", 2003, "42S02"),
    ("select nocol from t", 2043, "02000"),
    ("select nofunc(x) from t", 2003, "42S02"),
    ("insert into nope values (1)", 2003, "42S02"),
    ("insert into t values (1, 2, 3)", 2043, "02000"),
    ("insert into t (nocol) values (1)", 2043, "02000"),
    ("update nope set x = 1", 2003, "42S02"),
    ("update t set nocol = 1", 2043, "02000"),
    ("delete from nope", 2003, "42S02"),
    ("create table t (y int)", 2003, "42S02"),
    ("create schema s1", 2003, "42S02"),
    ("create view vv as select * from nope", 2003, "42S02"),
    ("drop table nope", 2003, "42S02"),
    ("drop view nope", 2003, "42S02"),
    ("drop schema nos", 2003, "42S02"),
    ("alter table nope add column y int", 2003, "42S02"),
    ("describe table nope", 2003, "42S02"),
    ("use schema nos", 2003, "42S02"),
    ("use database nodb", 2043, "02000"),
    ("truncate table nope", 2003, "42S02"),
    ("select $undefined_var", None, None),
    # an undefined session variable wherever it stands relative to string literals, other (defined) variables and '$' inside literals
    ("select 'a' as x, $undefined_var as y", None, None),
    ("select $undefined_var as y, 'b' as z", None, None),
    ("select 'a' as x, $undefined_var as y, 'b' as z", None, None),
    ("select x from t where 'x' = 'x' and x = $undefined_var and 'z' = 'z'", None, None),
    ("insert into t select $undefined_var where 'p' <> 'q'", None, None),
    ("select $keep as k, 'lit' as l, $undefined_var as y, 'lit2' as m", None, None),
    ("select 'costs $5' as s, $undefined_var as y, 'b' as z", None, None),
]


def snapshot(fs, conn):
    cur = fs.duck_conn.cursor()
    tabs = cur.execute("select table_catalog, table_schema, table_name from information_schema.tables where table_catalog not in ('system','temp') order by 1,2,3").fetchall()
    data = cur.execute("select * from db1.s1.t order by 1").fetchall()
    cur.close()
    return tabs, data, conn.database, conn.schema, conn.database_set, conn.schema_set, dict(conn.variables._variables)


def run(tier="quick", seed=0, repo="/repo"):
    import snowflake.connector.errors as sferr

    t = Tally(
        rule="each failing statement of the list (missing/duplicate object at each qualification level, in FROM / join / subquery / DML target / DDL, wrong column, wrong arity, undefined variable) "
        "x {autocommit, inside an open transaction} on the real stack: ProgrammingError with the listed errno/sqlstate, cursor.sqlstate set then reset by the next execute, catalog + data + session + variables + open transaction unchanged, connection still usable; "
        "plus every public entry point on a closed connection (DatabaseError 250002/08003); distinct = distinct (statement, mode)",
        exhaustive=True,
    )
    for in_tx in (False, True):
        fs = new_instance(repo)
        conn = fs.connect("db1", "s1")
        cur = conn.cursor()
        cur.execute("create table t (x int)")
        cur.execute("insert into t values (1)")
        cur.execute("set keep = 7")
        for sql, errno, sqlstate in CASES:
            if in_tx:
                cur.execute("begin")
                cur.execute("insert into t values (99)")
            before = snapshot(fs, conn)
            ok, detail = True, "ok"
            try:
                cur.execute(sql)
                ok, detail = False, "no error"
            except sferr.ProgrammingError as e:
                if errno is not None and (e.errno, e.sqlstate) != (errno, sqlstate):
                    ok, detail = False, f"ProgrammingError errno={e.errno} sqlstate={e.sqlstate}"
                elif errno is None and "does not exist" not in str(e):
                    ok, detail = False, f"message {e}"
                elif cur.sqlstate != e.sqlstate:
                    ok, detail = False, f"cursor.sqlstate {cur.sqlstate!r} != {e.sqlstate!r}"
            except Exception as e:  # noqa: BLE001
                ok, detail = False, f"{type(e).__module__}.{type(e).__name__}: {str(e)[:120]}"
            if ok:
                after = snapshot(fs, conn)
                if in_tx:
                    # the transaction's own insert is visible to the issuing connection only; compare the connection's view
                    pass
                if after != before:
                    ok, detail = False, f"state changed: {before} -> {after}"
            if ok:
                try:
                    cur.execute("select count(*) from t")
                    n = cur.fetchone()[0]
                    if cur.sqlstate is not None:
                        ok, detail = False, f"sqlstate not reset: {cur.sqlstate}"
                    if in_tx and n != 2:
                        ok, detail = False, f"open transaction lost: count {n}"
                except Exception as e:  # noqa: BLE001
                    ok, detail = False, f"connection unusable afterwards: {e}"
            if in_tx:
                try:
                    cur.execute("rollback")
                except Exception:  # noqa: BLE001
                    pass
            t.case(f"err:{'tx' if in_tx else 'auto'}:{sql}", (in_tx, sql), ok, function="fakesnow.cursor.FakeSnowflakeCursor._execute", case={"sql": sql, "in_tx": in_tx}, expected=f"ProgrammingError {errno}/{sqlstate}, nothing changed", actual=detail)
    # closed connection
    import pandas as pd

    import fakesnow

    fs = new_instance(repo)
    conn = fs.connect("db1", "s1")
    conn.cursor().execute("create table t (x int)")
    cur = conn.cursor()
    conn.close()
    entries = {
        "cursor.execute": lambda: cur.execute("select 1"),
        "new cursor.execute": lambda: conn.cursor().execute("select 1"),
        "executemany": lambda: cur.executemany("insert into t values (%s)", [(1,)]),
        "execute_string": lambda: list(conn.execute_string("select 1")),
        "commit": lambda: conn.commit(),
        "rollback": lambda: conn.rollback(),
        "describe": lambda: cur.describe("select 1"),
        "write_pandas": lambda: fakesnow.fakes.write_pandas(conn, pd.DataFrame({"X": [1]}), "T"),
    }
    for name, fn in entries.items():
        try:
            fn()
            ok, detail = False, "no error"
        except sferr.DatabaseError as e:
            ok = (e.errno, e.sqlstate) == (250002, "08003") and not isinstance(e, sferr.ProgrammingError)
            detail = f"{type(e).__name__} {e.errno}/{e.sqlstate}"
        except Exception as e:  # noqa: BLE001
            ok, detail = False, f"{type(e).__module__}.{type(e).__name__}: {str(e)[:100]}"
        t.case(f"closed:{name}", ("closed", name), ok, function="fakesnow.cursor.FakeSnowflakeCursor._execute", case={"entry": name}, expected="DatabaseError 250002/08003", actual=detail)
    return t.result(bound=f"{len(CASES)} failing statements x 2 transaction modes; {len(entries)} entry points on a closed connection")


def replay(case, repo):
    r = run("quick", 0, repo)
    bad = [f for f in r["failures"] if f["case_id"] == case.get("case_id")]
    return (not bad), (bad[0]["actual"] if bad else "ok")
