"""The 'world': class table, contracts, class schemas, property contracts, spec functions, global constants."""
from __future__ import annotations

import importlib
import sys

import z3

from .sorts import ClassTable, mkr, V
from .state import Val
from .types import NoneType


class Unsupported(Exception):
    def __init__(self, msg, node=None):
        super().__init__(msg)
        self.node = node


class Contract:
    def __init__(
        self,
        name,
        params=None,
        requires=(),
        ensures=None,
        raises=None,
        may_raise=(),
        modifies=(),
        result=None,
        fresh_result=False,
        props=(),
        assumed=False,
        pure=False,
        loops=None,
        locals=None,
        ghost_updates=None,
        note="",
        kind="function",
        cases=None,
        trusted_base=None,
        split_returns=True,
        allocates=True,
        log=None,
        assumed_ensures=None,
        focus=None,
        private=(),
        join_outcomes=True,
        split_on=(),
        when_facts=False,
    ):
        # True: the facts recorded while a `raises ... when` condition is evaluated at a call site (types of heap reads, identity of
        # objects the expression allocates) are kept on the calling state and its forks.  Without them the condition also holds in
        # models where an object allocated by the evaluation aliases a pre-existing one, which only costs completeness (spurious
        # refutations in callers that restate the condition).  Opt-in, so that the obligations of the functions verified before this
        # option existed are generated exactly as before.
        self.when_facts = when_facts
        self.name = name
        self.params = params or {}
        self.requires = list(requires)
        self.ensures = dict(ensures or {})
        # raises: {ExcClass: {"when": spec-or-None, "ensures": {id: spec}}}; 'when' None = may raise any time
        self.raises = raises or {}
        self.may_raise = list(may_raise)
        self.modifies = list(modifies)
        self.result = result
        self.fresh_result = fresh_result
        self.props = list(props)
        self.assumed = assumed
        self.pure = pure
        self.loops = loops or {}
        self.locals = locals or {}
        self.ghost_updates = ghost_updates or {}
        self.note = note
        self.kind = kind
        self.cases = cases  # finite case split: list of {"bind": {param: python literal}, "label": str}
        self.trusted_base = trusted_base
        self.allocates = allocates
        self.assumed_ensures = dict(assumed_ensures or {})  # assumed at call sites, NOT proved for the body (listed as assumptions)
        # focus: [{"label", "assume": spec over the entry state, "only": [ensures-id prefixes]}]: the listed postconditions are
        # proved in two parts: in a separate run of the body under `assume` (fewer feasible paths, smaller formulas), and in
        # the general run under `not assume`; together the two obligations cover every entry state.
        self.focus = list(focus or [])
        # entry-state conditions (specs) by which every obligation of the function is also attempted case by case: one case per
        # condition plus "none of them" - exhaustive by construction; a unit fact about e.g. the statement kind collapses most of
        # the merged state's conditionals
        self.split_on = list(split_on)
        self.join_outcomes = join_outcomes  # False: every return / raise site keeps its own obligations (small functions with string-heavy results)
        self.private = list(private)  # id prefixes of postconditions that are proved for the body but not assumed at call sites
        self.log = log  # (tag, [param names]) -> the call is appended to the ghost call log ($cl_*)


class ClassSchema:
    def __init__(self, cls, fields=None, truthy=None, props=None):
        self.cls = cls
        self.fields = fields or {}  # name -> hint
        self.truthy = truthy  # None (always true) | "len" | spec
        self.props = props or {}


class World:
    def __init__(self, repo_root="/repo"):
        self.repo_root = repo_root
        self.classes = ClassTable()
        self.contracts: dict[str, Contract] = {}
        self.schemas: dict[type, ClassSchema] = {}
        self.specfuns: dict[str, "SpecFun"] = {}
        self.globals_by_id: dict[int, Val] = {}
        self._gid: dict[int, int] = {}  # id(pyobj) -> negative ref
        self._gkeep = []
        self.handlers = {}  # canonical name -> python handler(executor, state, args, kwargs, node) for builtins/externs
        self.attr_handlers = {}  # (class, attr) -> handler(executor, state, objval, node)
        self.assumptions_used: set[str] = set()
        self.symbolic_globals: dict[int, object] = {}  # id(real object) -> type hint
        self.symbolic_module_attrs: dict[tuple, object] = {}  # (module name, attr) -> hint
        self.str_handlers = {}  # class -> fn(executor, state, Val) -> String term
        self.ghost_sorts = {}
        self.sql_tags = {}
        self.duck_class = None  # class assumed for attribute access on values of unknown type (sqlglot Expression) ...
        self.duck_attrs = set()  # ... for these attribute names
        self.axioms = []  # valid facts about uninterpreted symbols, added to the hypotheses of every obligation

    def symbolic_global(self, obj, hint):
        self.symbolic_globals[id(obj)] = hint
        self._gkeep.append(obj)

    # ---- global constants for real python objects
    def const(self, obj) -> Val:
        from .sorts import mkb, mki, mks, NONE

        if obj is None:
            return Val(NONE, NoneType)
        if isinstance(obj, bool):
            return Val(mkb(obj), bool)
        if isinstance(obj, int):
            return Val(mki(obj), int)
        if isinstance(obj, str):
            return Val(mks(obj), str, parts=[obj])
        k = id(obj)
        if k not in self._gid:
            gid = -(len(self._gid) + 1)
            self._gid[k] = gid
            self._gkeep.append(obj)
            sym = self.symbolic_globals.get(k)
            if sym is not None:
                # mutable module-level state: a heap object with unknown contents (never read from the real object)
                v = Val(mkr(gid), sym, py=None)
            else:
                v = Val(mkr(gid), type(obj) if not isinstance(obj, type) else type, py=obj)
            self.globals_by_id[gid] = v
        return self.globals_by_id[self._gid[k]]

    def contract_module(self, c):
        """the real module a contract's function lives in (its globals are visible to the contract's specifications)"""
        m = getattr(c, "_module", None)
        if m is None:
            parts = c.name.split(".")
            for k in range(len(parts) - 1, 0, -1):
                try:
                    m = importlib.import_module(".".join(parts[:k]))
                    break
                except Exception:  # noqa: BLE001
                    continue
            c._module = m
        return m

    def add_contract(self, c: Contract):
        self.contracts[c.name] = c
        return c

    def schema_for(self, cls):
        if not isinstance(cls, type):
            return None
        for k in cls.__mro__:
            if k in self.schemas:
                return self.schemas[k]
        return None

    def field_hint(self, cls, name):
        if not isinstance(cls, type):
            return None
        for k in cls.__mro__:
            sc = self.schemas.get(k)
            if sc and name in sc.fields:
                return sc.fields[name]
        return None


class SpecFun:
    """A specification function: z3 builder + native twin."""

    def __init__(self, name, z3fn, pyfn=None, result=None, concrete_ok=False):
        self.name = name
        self.z3fn = z3fn  # (executor, state, [Val...]) -> Val
        self.pyfn = pyfn
        self.result = result
        self.concrete_ok = concrete_ok  # evaluate pyfn directly when all arguments are literals


def canonical_name(obj) -> str | None:
    mod = getattr(obj, "__module__", None)
    qn = getattr(obj, "__qualname__", None)
    if mod and qn:
        return f"{mod}.{qn}"
    return None


def import_repo_module(repo_root: str, modname: str):
    if repo_root not in sys.path:
        sys.path.insert(0, repo_root)
    return importlib.import_module(modname)
