"""Replay files: a failed obligation (with the solver's output) and/or a natively failing input."""
from __future__ import annotations

import hashlib
import importlib
import json
import os
import sys
import time


def write_replay(out_dir, prop, cname, relpath, ob, native, repo):
    os.makedirs(out_dir, exist_ok=True)
    key = (ob.id if ob is not None else str(native.get("case_id"))) + cname
    h = hashlib.sha1(key.encode()).hexdigest()[:10]
    path = os.path.join(out_dir, f"{prop}-{h}.json")
    doc = {
        "property": prop,
        "function": cname,
        "file": relpath,
        "repo": repo,
        "written": time.strftime("%Y-%m-%dT%H:%M:%S"),
        "replay_cmd": f"./check {prop} --replay {path}",
    }
    if ob is not None:
        doc["obligation"] = {
            "id": ob.id,
            "kind": ob.kind,
            "where": ob.where,
            "statement": ob.note,
            "verdict": getattr(ob, "final", ob.verdict),
            "backend": ob.backend,
            "seconds": round(ob.time, 3),
            "solver_output": ob.raw,
            "goal": str(ob.goal)[:4000],
            "hypotheses": [str(c)[:600] for c in ob.pc[-12:]],
        }
    if native is not None:
        doc["native_case"] = {k: v for k, v in native.items() if not k.startswith("_")}
        native["_reported"] = True
    else:
        doc["native_case"] = None
        doc["note"] = "no-failing-input-found: the verifier gave no model that could be turned into an input and the bounded tier found no failing input; the failed obligation and the solver output are above"
    with open(path, "w") as f:
        json.dump(doc, f, indent=1, default=str)
    return path


def replay_file(path, repo):
    with open(path) as f:
        doc = json.load(f)
    prop = doc["property"]
    nc = doc.get("native_case")
    if nc:
        from contracts.properties import PROPERTIES

        mod = importlib.import_module(PROPERTIES[prop]["bounded"])
        if repo not in sys.path:
            sys.path.insert(0, repo)
        ok, detail = mod.replay(nc, repo)
        print(f"replay {nc.get('case_id')}: {'holds' if ok else 'FAILS'}: {detail}")
        if not ok:
            print(f"VIOLATION property={prop} replay={path}")
            return 1
        return 0
    # no native case: re-run the obligation of that function
    from contracts.base import build_world
    from pyvc.solve import discharge
    from pyvc.verify import verify_function
    from contracts.properties import PROPERTIES

    w = build_world(repo)
    want = doc["obligation"]["id"]
    for relpath, qual, cname in PROPERTIES[prop]["targets"]:
        if cname != doc["function"]:
            continue
        r = verify_function(w, relpath, qual, w.contracts[cname])
        if r.out_of_reach:
            print(f"out of reach now: {r.out_of_reach}")
            return 0
        import re

        obls = [o for o in r.obligations if re.sub(r"@\d+", "", o.id) == re.sub(r"@\d+", "", want)]
        discharge(obls, timeout_ms=40000)
        for o in obls:
            print(f"obligation {o.id}: {o.verdict} ({o.backend}, {o.time:.2f}s)")
            if o.verdict != "discharged":
                print(f"VIOLATION property={prop} replay={path} no-failing-input-found")
                return 1
    return 0
