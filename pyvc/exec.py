"""Symbolic executor: generates verification conditions from the real function AST.

Statement/expression semantics follow the Python language reference for the subset in DESIGN.md 2.2.
Branches are forked and joined again (ite) -- see state.join; abrupt outcomes (return / raise / break /
continue) are collected per frame.  Calls are never entered: a callee is replaced by its contract
(repo function with a sidecar contract, or an assumed extern contract), except nested defs / lambdas,
which are inlined at the call site (they have no identity outside their enclosing function).
"""
from __future__ import annotations

import ast
import builtins as _builtins

import z3

from . import types as T
from .sorts import B, CLS, I, NONE, S, STR_OF, V, mkb, mki, mkr, mks
from .state import SeqView, State, Val, arr_concat, arr_lit, arr_slice, fresh_const, fresh_name, join
from .types import DictT, ListT, NoneType, Opt, SetT, TupleT, UnionT
from .world import Contract, Unsupported, World, canonical_name


class Obligation:
    def __init__(self, oid, kind, pc, goal, where, note=""):
        self.id = oid
        self.kind = kind
        self.pc = list(pc)
        self.goal = goal
        self.where = where
        self.note = note
        self.verdict = None
        self.backend = None
        self.time = 0.0
        self.model = None
        self.raw = None
        self.expect_refuted = False  # canaries
        self.depends = []  # ids of obligations used as lemmas


class Outcome:
    def __init__(self, kind, st, val=None, node=None):
        self.kind = kind  # 'return' | 'raise' | 'break' | 'continue'
        self.st = st
        self.val = val
        self.node = node


class Closure:
    def __init__(self, node, env_ref, name, defaults):
        self.node = node
        self.env_ref = env_ref  # State whose env is captured (by reference at call time we use current values)
        self.name = name
        self.defaults = defaults


class BoundMethod:
    def __init__(self, recv: Val, name: str, func=None):
        self.recv = recv
        self.name = name
        self.func = func


TRUE = z3.BoolVal(True)
FALSE = z3.BoolVal(False)


def simp(t):
    return z3.simplify(t)


def is_t(t):
    return z3.is_true(simp(t))


def is_f(t):
    return z3.is_false(simp(t))


class Executor:
    def __init__(self, world: World, module, fn_node: ast.AST, qualname: str, contract: Contract | None, filename: str):
        self.w = world
        self.module = module  # real imported module (for globals)
        self.fn_node = fn_node
        self.qualname = qualname
        self.contract = contract
        self.filename = filename
        self.obligations: list[Obligation] = []
        self.frames: list[list[Outcome]] = []
        self.spec = None  # SpecCtx when evaluating spec expressions
        self.loop_ord = 0
        self.unsupported: list[str] = []
        self._obl_ids = set()
        self.created_consts: list | None = None
        self.trusted_used: set[str] = set()
        self.paths = 0
        self.closure_globals = {}

    # ------------------------------------------------------------------ utilities
    def where(self, node):
        ln = getattr(node, "lineno", None)
        return f"{self.filename}:{ln}" if ln else self.filename

    def oblige(self, st: State, goal, oid, kind, node=None, note=""):
        if self.spec is not None and self.spec.no_oblige:
            return
        if getattr(st, "dead", False):
            return
        g = simp(goal)
        if z3.is_true(g):
            # still count as an obligation discharged trivially? keep it: it is an obligation generated
            pass
        base = oid
        n = 1
        while oid in self._obl_ids:
            n += 1
            oid = f"{base}#{n}"
        self._obl_ids.add(oid)
        self.obligations.append(Obligation(oid, kind, st.pc, g, self.where(node) if node is not None else self.filename, note))

    def push_outcome(self, kind, st: State, val=None, node=None):
        self.frames[-1].append(Outcome(kind, st, val, node))

    def safe_assume(self, st, c):
        """after a safety obligation the code continues under the checked condition; in specifications (total
        functions, no obligations) nothing is assumed"""
        if self.spec is None:
            st.assume(c)

    def kill(self, st: State):
        st.dead = True
        st.pc.append(FALSE)

    def dead(self, st):
        return getattr(st, "dead", False)

    def fresh(self, prefix, sort):
        c = fresh_const(prefix, sort)
        if self.created_consts is not None:
            self.created_consts.append(c)
        return c

    def fresh_val(self, prefix, ty=None, st=None):
        v = Val(self.fresh(prefix, V), ty)
        if st is not None:
            self.assume_type(st, v)
        return v

    # ------------------------------------------------------------------ types as predicates
    def type_pred(self, t, ty, st=None):
        if ty is None:
            return TRUE
        if ty is int:
            return V.is_i(t)
        if ty is bool:
            return V.is_b(t)
        if ty is str:
            return V.is_s(t)
        if ty is NoneType:
            return V.is_none(t)
        if ty is object:
            return TRUE
        if isinstance(ty, Opt):
            return z3.Or(V.is_none(t), self.type_pred(t, ty.t))
        if isinstance(ty, UnionT):
            return z3.Or([self.type_pred(t, m) for m in ty.members])
        if isinstance(ty, ListT):
            return z3.And(V.is_r(t), self.w.classes.isa(CLS(V.rid(t)), list))
        if isinstance(ty, TupleT):
            base = z3.And(V.is_r(t), self.w.classes.isa(CLS(V.rid(t)), tuple))
            return base
        if isinstance(ty, DictT):
            return z3.And(V.is_r(t), self.w.classes.isa(CLS(V.rid(t)), dict))
        if isinstance(ty, SetT):
            return z3.And(V.is_r(t), self.w.classes.isa(CLS(V.rid(t)), (set, frozenset)))
        if isinstance(ty, type):
            return z3.And(V.is_r(t), self.w.classes.isa(CLS(V.rid(t)), ty))
        raise Unsupported(f"type hint {ty!r}")

    def assume_type(self, st: State, v: Val):
        if v.ty is None or v.py is not None:
            return
        st.assume(self.type_pred(v.t, v.ty))
        # tuples of fixed arity: length known
        if isinstance(v.ty, TupleT) and v.ty.items is not None:
            st.assume(st.arr("$len")[V.rid(v.t)] == len(v.ty.items))
        if isinstance(v.ty, (ListT, TupleT)):
            st.assume(st.arr("$len")[V.rid(v.t)] >= 0)

    # ------------------------------------------------------------------ unboxing helpers
    def as_int(self, st, v: Val, node=None, what="int operand"):
        if v.ty is int:
            return V.ival(v.t)
        if v.ty is bool:
            return z3.If(V.bval(v.t), z3.IntVal(1), z3.IntVal(0))
        self.oblige(st, z3.Or(V.is_i(v.t), V.is_b(v.t)), f"safe.type.int@{getattr(node,'lineno',0)}", "safe", node, what)
        self.safe_assume(st, z3.Or(V.is_i(v.t), V.is_b(v.t)))
        return z3.If(V.is_i(v.t), V.ival(v.t), z3.If(V.bval(v.t), z3.IntVal(1), z3.IntVal(0)))

    def as_str(self, st, v: Val, node=None, what="str operand"):
        if v.ty is not str:
            self.oblige(st, V.is_s(v.t), f"safe.type.str@{getattr(node,'lineno',0)}", "safe", node, what)
            self.safe_assume(st, V.is_s(v.t))
        return V.sval(v.t)

    def as_ref(self, st, v: Val, node=None, what="object"):
        """id of the heap object; emits the None/attribute safety obligation when not statically a reference."""
        ty = v.ty
        if ty in (int, bool, str, NoneType) or ty is None or isinstance(ty, Opt):  # (UnionT members are all references)
            self.oblige(st, V.is_r(v.t), f"safe.deref@{getattr(node,'lineno',0)}", "safe", node, f"{what} is an object (not None)")
            self.safe_assume(st, V.is_r(v.t))
        return V.rid(v.t)

    def seq_of(self, st, v: Val, node=None) -> SeqView:
        if isinstance(v.ty, UnionT) and all(isinstance(m, (ListT, TupleT)) for m in v.ty.members):
            oid = V.rid(v.t)
            n = st.arr("$len")[oid]
            st.assume(n >= 0)
            return SeqView(n, st.arr("$el")[oid], None)
        oid = self.as_ref(st, v, node, "sequence")
        n = st.arr("$len")[oid]
        st.assume(n >= 0)
        eh = getattr(v.ty, "elem", None)
        if isinstance(v.ty, TupleT) and v.ty.items is not None:
            eh = T.join_types(v.ty.items) if v.ty.items else None
        return SeqView(n, st.arr("$el")[oid], eh)

    def keys_of(self, st, d: Val, node=None) -> SeqView:
        oid = self.as_ref(st, d, node, "dict")
        n = st.arr("$klen")[oid]
        st.assume(n >= 0)
        return SeqView(n, st.arr("$kel")[oid], getattr(d.ty, "k", None))

    # ------------------------------------------------------------------ allocation
    def alloc_term(self, st: State):
        a = st.ghost.get("$alloc")
        if a is None:
            a = z3.Int("alloc0")
            st.ghost["$alloc"] = a
        return a

    def new_object(self, st: State, cls, ty=None) -> Val:
        a = self.alloc_term(st)
        oid = self.fresh("obj", I)
        st.assume(oid >= a)  # some id not used before (ids below the allocation pointer are taken)
        st.ghost["$alloc"] = oid + 1
        if cls is not None:
            st.assume(CLS(oid) == self.w.classes.cid(cls))
        return Val(mkr(oid), ty if ty is not None else cls)

    def new_seq(self, st: State, kind, n, arr, elem=None, items=None) -> Val:
        if kind is tuple:
            ty = TupleT(items=items, elem=elem)
        else:
            ty = ListT(elem)
        v = self.new_object(st, kind, ty)
        oid = V.rid(v.t)
        st.heap["$len"] = z3.Store(st.arr("$len"), oid, n if z3.is_expr(n) else z3.IntVal(n))
        st.heap["$el"] = z3.Store(st.arr("$el"), oid, arr)
        return v

    def new_seq_lit(self, st, kind, vals, items=None) -> Val:
        out = self.new_seq(st, kind, len(vals), arr_lit([v.t for v in vals]), elem=T.join_types([v.ty for v in vals]) if vals else None, items=items)
        out.parts = list(vals)
        return out

    def bump_alloc(self, st: State):
        """a callee may have allocated: allocation pointer moves to an unknown later point"""
        a = self.alloc_term(st)
        n = self.fresh("alloc", I)
        st.assume(n >= a)
        st.ghost["$alloc"] = n

    def assume_allocated(self, st: State, t):
        """any reference read from the heap / received was allocated before now"""
        st.assume(z3.Implies(V.is_r(t), V.rid(t) < self.alloc_term(st)))

    # ------------------------------------------------------------------ truthiness / equality
    def truthy(self, st: State, v: Val):
        ty = v.ty
        t = v.t
        if v.py is not None:
            return TRUE
        if ty is bool:
            return V.bval(t)
        if ty is int:
            return V.ival(t) != 0
        if ty is str:
            return z3.Length(V.sval(t)) > 0
        if ty is NoneType:
            return FALSE
        if isinstance(ty, Opt):
            inner = self.truthy(st, Val(t, ty.t))
            return z3.And(z3.Not(V.is_none(t)), inner)
        if isinstance(ty, UnionT):
            return self.truthy_ref(st, V.rid(t), None)
        if isinstance(ty, (ListT, TupleT)):
            return st.arr("$len")[V.rid(t)] > 0
        if isinstance(ty, (DictT, SetT)):
            return st.arr("$klen")[V.rid(t)] > 0
        if isinstance(ty, type):
            return self.truthy_ref(st, V.rid(t), ty)
        # unknown: full case analysis
        return z3.If(
            V.is_none(t),
            FALSE,
            z3.If(
                V.is_b(t),
                V.bval(t),
                z3.If(V.is_i(t), V.ival(t) != 0, z3.If(V.is_s(t), z3.Length(V.sval(t)) > 0, self.truthy_ref(st, V.rid(t), None))),
            ),
        )

    def truthy_ref(self, st, oid, cls):
        w = self.w
        if cls is not None:
            sc = w.schema_for(cls)
            if sc is not None:
                if sc.truthy is None:
                    return TRUE
                if sc.truthy == "len":
                    return st.arr("$len")[oid] > 0
                if callable(sc.truthy):
                    return sc.truthy(self, st, oid)
            if issubclass(cls, (list, tuple)):
                return st.arr("$len")[oid] > 0
            if issubclass(cls, (dict, set, frozenset)):
                return st.arr("$klen")[oid] > 0
        c = CLS(oid)
        out = TRUE
        for k, sc in w.schemas.items():
            if callable(sc.truthy):
                out = z3.If(w.classes.isa(c, k), sc.truthy(self, st, oid), out)
        out = z3.If(w.classes.isa(c, (dict, set, frozenset)), st.arr("$klen")[oid] > 0, out)
        out = z3.If(w.classes.isa(c, (list, tuple)), st.arr("$len")[oid] > 0, out)
        return out

    def py_eq(self, st, a: Val, b: Val):
        """Python == as a z3 Bool (see DESIGN 2.5: structural on V, int/bool cross-compare, identity on objects)"""
        prim = (int, str, NoneType)
        if a.ty in prim and b.ty in prim and a.ty is b.ty:
            return a.t == b.t
        if (a.ty is str and b.ty is str) or (a.ty is int and b.ty is int):
            return a.t == b.t
        num_a = a.ty in (int, bool)
        num_b = b.ty in (int, bool)
        if num_a and num_b:
            return self.as_int(st, a) == self.as_int(st, b)
        if (a.ty in (str, NoneType) and b.ty is not None and not isinstance(b.ty, Opt) and b.ty is not a.ty and b.ty in (int, bool, str, NoneType)):
            return FALSE
        if a.ty is None or b.ty is None or a.ty is bool or b.ty is bool or isinstance(a.ty, Opt) or isinstance(b.ty, Opt):
            # general
            numeric = z3.And(z3.Or(V.is_i(a.t), V.is_b(a.t)), z3.Or(V.is_i(b.t), V.is_b(b.t)))
            na = z3.If(V.is_i(a.t), V.ival(a.t), z3.If(V.bval(a.t), z3.IntVal(1), z3.IntVal(0)))
            nb = z3.If(V.is_i(b.t), V.ival(b.t), z3.If(V.bval(b.t), z3.IntVal(1), z3.IntVal(0)))
            might_num = (a.ty in (None, bool, int) or isinstance(a.ty, Opt)) and (b.ty in (None, bool, int) or isinstance(b.ty, Opt))
            seqeq = self._seq_eq(st, a, b)
            base = a.t == b.t
            if seqeq is not None:
                base = z3.Or(base, seqeq)
            if might_num and not (a.ty is None and b.ty is str) and not (b.ty is None and a.ty is str):
                return z3.Or(base, z3.And(numeric, na == nb))
            return base
        seqeq = self._seq_eq(st, a, b)
        if seqeq is not None:
            return z3.Or(a.t == b.t, seqeq)
        return a.t == b.t

    def _seq_eq(self, st, a, b):
        if isinstance(a.ty, (ListT, TupleT)) and isinstance(b.ty, (ListT, TupleT)) and type(a.ty) is type(b.ty):
            va, vb = self.seq_of(st, a), self.seq_of(st, b)
            i = z3.Int(fresh_name("eq!i"))
            return z3.And(va.n == vb.n, z3.ForAll([i], z3.Implies(z3.And(i >= 0, i < va.n), va.at(i) == vb.at(i))))
        return None

    # ------------------------------------------------------------------ names
    def lookup(self, st: State, name: str, node=None) -> Val:
        if self.spec is not None:
            if name in self.spec.names:
                return self.spec.names[name]
            mod = getattr(self.spec, "module", None) or self.module
            g = getattr(mod, "__dict__", {})
            if name in g:
                return self.w.const(g[name])
            if name in getattr(self.module, "__dict__", {}):
                return self.w.const(self.module.__dict__[name])
            if hasattr(_builtins, name):
                return self.w.const(getattr(_builtins, name))
            raise Unsupported(f"unresolved name {name} in specification", node)
        if name in st.env:
            bc = st.bound.get(name)
            if bc is not None and not z3.is_true(bc):
                self.oblige(st, bc, f"safe.bound.{name}@{getattr(node,'lineno',0)}", "safe", node, f"local {name} is bound")
            return st.env[name]
        if name in self.closure_globals:
            return self.closure_globals[name]
        g = getattr(self.module, "__dict__", {})
        if name in g:
            return self.w.const(g[name])
        if hasattr(_builtins, name):
            return self.w.const(getattr(_builtins, name))
        raise Unsupported(f"unresolved name {name}", node)

    def assign_name(self, st: State, name: str, v: Val):
        if v.ty is None and v.py is None and self.contract is not None and self.spec is None:
            declared = self.contract.locals.get(name)
            if declared is not None and not isinstance(declared, str):
                # sidecar-declared shape of a local whose static type is unknown (elements of sqlglot argument lists):
                # an assumption (A-SQLGLOT 1 field shapes), listed with the trusted base
                v = Val(v.t, declared, v.py, v.parts)
                st.assume(self.type_pred(v.t, declared))
                self.trusted_used.add(f"assumed shape of local `{name}` in {self.qualname}: {T.tname(declared)}")
        st.env[name] = v
        st.bound.pop(name, None)

    # ------------------------------------------------------------------ expressions
    def ev(self, node: ast.AST, st: State) -> Val:
        m = getattr(self, "ev_" + type(node).__name__, None)
        if m is None:
            raise Unsupported(f"expression {type(node).__name__}", node)
        return m(node, st)

    def ev_Constant(self, node, st):
        c = node.value
        if c is None or isinstance(c, (bool, int, str)):
            return self.w.const(c)
        if c is Ellipsis:
            return self.w.const(c)
        raise Unsupported(f"constant {c!r}", node)

    def ev_Name(self, node, st):
        return self.lookup(st, node.id, node)

    def ev_NamedExpr(self, node, st):
        v = self.ev(node.value, st)
        self.assign_name(st, node.target.id, v)
        return v

    def ev_Tuple(self, node, st):
        return self._display(node, st, tuple)

    def ev_List(self, node, st):
        return self._display(node, st, list)

    def _display(self, node, st, kind):
        acc = SeqView(z3.IntVal(0), z3.K(I, NONE))
        group: list[Val] = []
        vals: list[Val] = []
        fixed = True

        def flush():
            nonlocal acc, group
            if group:
                lit = SeqView(z3.IntVal(len(group)), arr_lit([g.t for g in group]))
                acc = lit if z3.is_int_value(acc.n) and acc.n.as_long() == 0 else SeqView(acc.n + lit.n, arr_concat(acc, lit))
                group = []

        for e in node.elts:
            if isinstance(e, ast.Starred):
                sv = self.ev(e.value, st)
                if sv.parts is not None and all(isinstance(p, Val) for p in sv.parts) and isinstance(sv.ty, (ListT, TupleT)):
                    group.extend(sv.parts)
                    vals.extend(sv.parts)
                    continue
                fixed = False
                flush()
                other = self.seq_of(st, sv, e)
                acc = SeqView(acc.n + other.n, arr_concat(acc, other))
            else:
                v = self.ev(e, st)
                group.append(v)
                vals.append(v)
        if fixed:
            return self.new_seq_lit(st, kind, vals, items=[v.ty for v in vals] if kind is tuple else None)
        flush()
        return self.new_seq(st, kind, acc.n, acc.arr)

    def ev_Set(self, node, st):
        # only used for membership tests on literal sets
        vals = [self.ev(e, st) for e in node.elts]
        v = self.new_object(st, set, SetT(T.join_types([x.ty for x in vals])))
        v.parts = vals
        return v

    def ev_Dict(self, node, st):
        d = self.new_object(st, dict, DictT())
        oid = V.rid(d.t)
        has = z3.K(V, FALSE)
        mp = st.arr("$dmap")[oid]
        klen = z3.IntVal(0)
        kel = z3.K(I, NONE)
        ktys, vtys = [], []
        for k, vv in zip(node.keys, node.values):
            if k is None:
                raise Unsupported("dict unpacking in display", node)
            kv = self.ev(k, st)
            val = self.ev(vv, st)
            present = z3.Select(has, kv.t)
            kel = z3.If(present, kel, z3.Store(kel, klen, kv.t))
            klen = z3.If(present, klen, klen + 1)
            has = z3.Store(has, kv.t, TRUE)
            mp = z3.Store(mp, kv.t, val.t)
            ktys.append(kv.ty)
            vtys.append(val.ty)
        st.heap["$dhas"] = z3.Store(st.arr("$dhas"), oid, has)
        st.heap["$dmap"] = z3.Store(st.arr("$dmap"), oid, mp)
        st.heap["$klen"] = z3.Store(st.arr("$klen"), oid, simp(klen))
        st.heap["$kel"] = z3.Store(st.arr("$kel"), oid, simp(kel))
        d.ty = DictT(T.join_types(ktys), T.join_types(vtys))
        return d

    def ev_JoinedStr(self, node, st):
        parts = []
        terms = []
        for p in node.values:
            if isinstance(p, ast.Constant):
                parts.append(p.value)
                terms.append(z3.StringVal(p.value))
            else:
                v = self.ev(p.value, st)
                if p.conversion != -1 or p.format_spec is not None:
                    sv = self._format_special(st, v, p, node)
                    parts.append(sv)
                    terms.append(V.sval(sv.t))
                else:
                    parts.append(v)
                    terms.append(self.str_of(st, v, node))
        t = terms[0] if len(terms) == 1 else (z3.Concat(terms) if terms else z3.StringVal(""))
        return Val(mks(simp(t)), str, parts=parts)

    def _format_special(self, st, v, p, node):
        # {x!r}, {x:06d}: only the %06d-style integer padding is interpreted; anything else is opaque text
        if p.format_spec is not None and p.conversion == -1:
            spec = p.format_spec
            if isinstance(spec, ast.JoinedStr) and len(spec.values) == 1 and isinstance(spec.values[0], ast.Constant):
                fs = spec.values[0].value
                if fs.endswith("d") and fs[:-1].startswith("0") and fs[1:-1].isdigit():
                    width = int(fs[1:-1])
                    n = self.as_int(st, v, node, "format :0Nd needs an int")
                    return Val(mks(self.zero_pad(n, width)), str)
        return Val(mks(self.fresh("fmt", S)), str)

    def zero_pad(self, n, width):
        digits = z3.IntToStr(z3.If(n >= 0, n, -n))
        sign = z3.If(n >= 0, z3.StringVal(""), z3.StringVal("-"))
        body_w = z3.If(n >= 0, z3.IntVal(width), z3.IntVal(width - 1))
        out = digits
        # pad up to width (width is a small constant): prepend zeros while short
        for k in range(1, width):
            out = z3.If(z3.Length(digits) + k <= body_w, z3.Concat(z3.StringVal("0" * k), digits), out)
        return z3.Concat(sign, out)

    def str_of(self, st, v: Val, node=None):
        """str(x) / format(x) as a String term"""
        if v.ty is str:
            return V.sval(v.t)
        if v.ty is int:
            n = V.ival(v.t)
            return z3.If(n >= 0, z3.IntToStr(n), z3.Concat(z3.StringVal("-"), z3.IntToStr(-n)))
        if v.ty is NoneType:
            return z3.StringVal("None")
        if v.ty is bool:
            return z3.If(V.bval(v.t), z3.StringVal("True"), z3.StringVal("False"))
        if isinstance(v.ty, type):
            for k in v.ty.__mro__:
                h = self.w.str_handlers.get(k)
                if h is not None:
                    return h(self, st, v)
        if isinstance(v.ty, Opt) and v.ty.t is not None:
            return z3.If(V.is_none(v.t), z3.StringVal("None"), self.str_of(st, Val(v.t, v.ty.t), node))
        n = V.ival(v.t)
        return z3.If(
            V.is_s(v.t),
            V.sval(v.t),
            z3.If(V.is_i(v.t), z3.If(n >= 0, z3.IntToStr(n), z3.Concat(z3.StringVal("-"), z3.IntToStr(-n))), STR_OF(v.t)),
        )

    def ev_UnaryOp(self, node, st):
        if isinstance(node.op, ast.Not):
            c, _, _ = self.cond(node, st)
            return Val(mkb(c), bool)
        v = self.ev(node.operand, st)
        if isinstance(node.op, ast.USub):
            return Val(mki(-self.as_int(st, v, node)), int)
        if isinstance(node.op, ast.UAdd):
            return Val(mki(self.as_int(st, v, node)), int)
        raise Unsupported("unary op", node)

    def ev_BinOp(self, node, st):
        a = self.ev(node.left, st)
        b = self.ev(node.right, st)
        op = node.op
        if isinstance(op, ast.Add):
            if a.ty is str or b.ty is str:
                return Val(mks(z3.Concat(self.as_str(st, a, node), self.as_str(st, b, node))), str, parts=(a.parts or [a]) + (b.parts or [b]))
            if isinstance(a.ty, (ListT, TupleT)) and isinstance(b.ty, (ListT, TupleT)):
                kind = list if isinstance(a.ty, ListT) else tuple
                va, vb = self.seq_of(st, a), self.seq_of(st, b)
                out = self.new_seq(st, kind, va.n + vb.n, arr_concat(va, vb), elem=T.join_types([va.elem, vb.elem]))
                if a.parts is not None and b.parts is not None and all(isinstance(p, Val) for p in a.parts + b.parts):
                    out.parts = a.parts + b.parts
                return out
            if a.ty in (int, bool) and b.ty in (int, bool):
                return Val(mki(self.as_int(st, a, node) + self.as_int(st, b, node)), int)
            if a.ty is None or b.ty is None:
                raise Unsupported("'+' on operands of unknown type", node)
            return Val(mki(self.as_int(st, a, node) + self.as_int(st, b, node)), int)
        if isinstance(op, ast.Sub):
            return Val(mki(self.as_int(st, a, node) - self.as_int(st, b, node)), int)
        if isinstance(op, ast.Mult):
            if a.ty is str and b.ty is int or a.ty is int and b.ty is str:
                raise Unsupported("str * int", node)
            if isinstance(a.ty, ListT) and b.ty is int:
                raise Unsupported("list * int", node)
            return Val(mki(self.as_int(st, a, node) * self.as_int(st, b, node)), int)
        if isinstance(op, ast.FloorDiv):
            x, y = self.as_int(st, a, node), self.as_int(st, b, node)
            self.oblige(st, y != 0, f"safe.div@{node.lineno}", "safe", node, "division by zero")
            self.safe_assume(st, y != 0)
            # python floor division
            return Val(mki(z3.If(y > 0, x / y, -((-x) / (-y)) if False else z3.If(x % y == 0, x / y, (x / y)))), int) if False else Val(mki(self.floordiv(x, y)), int)
        if isinstance(op, ast.Mod):
            if a.ty is str:
                return self.call_handler("str.__mod__", st, [a, b], {}, node)
            x, y = self.as_int(st, a, node), self.as_int(st, b, node)
            self.oblige(st, y != 0, f"safe.mod@{node.lineno}", "safe", node, "modulo by zero")
            self.safe_assume(st, y != 0)
            return Val(mki(x - y * self.floordiv(x, y)), int)
        if isinstance(op, ast.Div) and (isinstance(a.ty, type) and a.ty.__name__ in ("Path", "PosixPath", "PurePath") or isinstance(a.ty, Opt)):
            return self.call_handler("pathlib.Path.__truediv__", st, [a, b], {}, node)
        raise Unsupported(f"binary op {type(op).__name__}", node)

    @staticmethod
    def floordiv(x, y):
        # z3 integer division rounds so that remainder is non-negative; python floors
        q = x / y
        return z3.If(y > 0, q, z3.If(x % y == 0, q, q - 1) if False else z3.If(y * q == x, q, -((x) / (-y)) - 1))

    def ev_BoolOp(self, node, st):
        # value semantics with short circuit; evaluated by fork+join so no path explosion
        is_and = isinstance(node.op, ast.And)
        tmp = fresh_name("$bo")

        def go(i, s):
            v = self.ev(node.values[i], s)
            if i == len(node.values) - 1:
                s.env[tmp] = v
                return
            c = self.truthy(s, v)

            def cont(s2):
                go(i + 1, s2)

            def stop(s2):
                s2.env[tmp] = v

            if is_and:
                self.branch(s, c, cont, stop)
            else:
                self.branch(s, c, stop, cont)

        go(0, st)
        if self.dead(st):
            return Val(NONE, NoneType)
        out = st.env.pop(tmp)
        st.bound.pop(tmp, None)
        return out

    def ev_IfExp(self, node, st):
        c, nt, nf = self.cond(node.test, st)
        tmp = fresh_name("$ife")

        def a(s):
            self.apply_narrow(s, nt)
            s.env[tmp] = self.ev(node.body, s)

        def b(s):
            self.apply_narrow(s, nf)
            s.env[tmp] = self.ev(node.orelse, s)

        self.branch(st, c, a, b)
        if self.dead(st):
            return Val(NONE, NoneType)
        out = st.env.pop(tmp)
        st.bound.pop(tmp, None)
        return out

    def ev_Compare(self, node, st):
        c, _, _ = self.cond(node, st)
        return Val(mkb(c), bool)

    def ev_Lambda(self, node, st):
        return Val(mkr(self.fresh("lam", I)), None, py=Closure(node, st, "<lambda>", []))

    def ev_Attribute(self, node, st):
        obj = self.ev(node.value, st)
        return self.get_attr(st, obj, node.attr, node)

    def get_attr(self, st, obj: Val, attr: str, node=None) -> Val:
        # real python object (module / class / enum): real getattr
        if obj.py is not None and not isinstance(obj.py, (Closure, BoundMethod)):
            sym = self.w.symbolic_module_attrs.get((getattr(obj.py, "__name__", None), attr))
            if sym is not None:
                # a module-level variable that callers may rebind: its value when read, not the value at import
                v = Val(z3.Const(f"G_{obj.py.__name__}.{attr}", V), sym)
                self.assume_type(st, v)
                return v
            try:
                real = getattr(obj.py, attr)
            except AttributeError:
                raise Unsupported(f"no attribute {attr} on {obj.py!r}", node)
            return self.w.const(real)
        ty = T.strip_opt(obj.ty)
        if attr == "args" and isinstance(ty, type) and issubclass(ty, BaseException):
            oid = self.as_ref(st, obj, node, ".args receiver")
            v = Val(st.arr("$exc_args")[oid], TupleT(elem=None))
            self.assume_type(st, v)
            self.assume_allocated(st, v.t)
            return v
        # attribute handlers (properties with contracts)
        if isinstance(ty, type):
            for k in ty.__mro__:
                h = self.w.attr_handlers.get((k, attr))
                if h is not None:
                    oid = self.as_ref(st, obj, node, f".{attr} receiver")
                    return h(self, st, Val(mkr(oid), ty), node)
        if ty in (str, int, bool) or isinstance(ty, (ListT, TupleT, DictT, SetT)):
            return Val(NONE, None, py=BoundMethod(obj, attr))
        if isinstance(ty, type):
            # method?
            real = getattr(ty, attr, None)
            if real is not None and (callable(real) and not isinstance(real, property)) and self.w.field_hint(ty, attr) is None:
                self.as_ref(st, obj, node, f".{attr} receiver")
                return Val(NONE, None, py=BoundMethod(obj, attr, real))
            if isinstance(real, property) and self.w.field_hint(ty, attr) is None:
                # property of a repo class: use its contract
                cn = f"{ty.__module__}.{ty.__qualname__}.{attr}"
                c = self.w.contracts.get(cn)
                if c is None:
                    raise Unsupported(f"property {cn} without contract", node)
                return self.apply_contract(c, st, [obj], {}, node)
            oid = self.as_ref(st, obj, node, f".{attr} receiver")
            hint = self.w.field_hint(ty, attr)
            sc = self.w.schema_for(ty)
            if hint is None and (sc is None or attr not in sc.fields):
                if sc is not None and getattr(sc, "closed", False):
                    raise Unsupported(f"field {ty.__name__}.{attr} not in schema", node)
            v = Val(st.arr(attr)[oid], hint)
            self.assume_type(st, v)
            self.assume_allocated(st, v.t)
            return v
        if ty is None and attr in _STR_METHODS:
            # duck typing: calling a str method on a value of unknown type needs it to be a str (else AttributeError)
            self.oblige(st, V.is_s(obj.t), f"safe.attr.{attr}@{getattr(node,'lineno',0)}", "safe", node, f".{attr}() receiver is a str")
            self.safe_assume(st, V.is_s(obj.t))
            return Val(NONE, None, py=BoundMethod(Val(obj.t, str), attr))
        if ty is None and self.w.duck_class is not None and attr in self.w.duck_attrs:
            # duck typing for the sqlglot node API: the receiver must be an Expression (else AttributeError)
            E_ = self.w.duck_class
            isnode = z3.And(V.is_r(obj.t), self.w.classes.isa(CLS(V.rid(obj.t)), E_))
            self.oblige(st, isnode, f"safe.attr.{attr}@{getattr(node,'lineno',0)}", "safe", node, f".{attr} receiver is a sqlglot Expression")
            self.safe_assume(st, isnode)
            return self.get_attr(st, Val(obj.t, E_), attr, node)
        if ty is None:
            # unknown receiver type: allow plain field read with no hint (methods cannot be resolved)
            oid = self.as_ref(st, obj, node, f".{attr} receiver")
            v = Val(st.arr(attr)[oid], None)
            self.assume_allocated(st, v.t)
            v.py = None
            return v
        raise Unsupported(f"attribute {attr} on {T.tname(obj.ty)}", node)

    def set_attr(self, st, obj: Val, attr: str, v: Val, node=None):
        oid = self.as_ref(st, obj, node, f".{attr} target")
        ty = T.strip_opt(obj.ty)
        hint = self.w.field_hint(ty, attr) if isinstance(ty, type) else None
        if hint is not None and repr(hint) != repr(v.ty):
            self.oblige(st, self.type_pred(v.t, hint), f"type.{attr}@{getattr(node,'lineno',0)}", "type", node, f"value stored in .{attr} has type {T.tname(hint)}")
        if attr in ("args", "parent"):
            self.bump_treever(st)
        st.heap[attr] = z3.Store(st.arr(attr), oid, v.t)

    # subscripts -----------------------------------------------------------------
    def norm_index(self, st, seqlen, idx, node, what):
        i2 = z3.If(idx < 0, idx + seqlen, idx)
        self.oblige(st, z3.And(i2 >= 0, i2 < seqlen), f"safe.index@{node.lineno}", "safe", node, f"{what} index in range")
        self.safe_assume(st, z3.And(i2 >= 0, i2 < seqlen))
        return i2

    @staticmethod
    def clamp_slice(n, lo, hi):
        """python slice bounds (step 1): lo/hi are Int terms or None"""
        if lo is None:
            a = z3.IntVal(0)
        else:
            a = z3.If(lo < 0, z3.If(lo + n < 0, z3.IntVal(0), lo + n), z3.If(lo > n, n, lo))
        if hi is None:
            b = n
        else:
            b = z3.If(hi < 0, z3.If(hi + n < 0, z3.IntVal(0), hi + n), z3.If(hi > n, n, hi))
        ln = z3.If(b - a < 0, z3.IntVal(0), b - a)
        return a, ln

    def ev_Subscript(self, node, st):
        obj = self.ev(node.value, st)
        if isinstance(obj.py, type) or getattr(obj.py, "__module__", None) == "typing":
            # a type expression such as tuple[exp.Table, str] (only ever handed to typing.cast)
            return Val(NONE, None, py=("typealias", obj.py))
        ty = T.strip_opt(obj.ty)
        sl = node.slice
        if isinstance(sl, ast.Slice):
            if sl.step is not None:
                raise Unsupported("slice step", node)
            lo = self.as_int(st, self.ev(sl.lower, st), node) if sl.lower is not None else None
            hi = self.as_int(st, self.ev(sl.upper, st), node) if sl.upper is not None else None
            if ty is str:
                s = V.sval(obj.t)
                a, ln = self.clamp_slice(z3.Length(s), lo, hi)
                return Val(mks(z3.SubString(s, a, ln)), str)
            if isinstance(ty, (ListT, TupleT)) or ty in (list, tuple):
                sq = self.seq_of(st, obj, node)
                a, ln = self.clamp_slice(sq.n, lo, hi)
                kind = tuple if isinstance(ty, TupleT) or ty is tuple else list
                return self.new_seq(st, kind, ln, arr_slice(sq, a), elem=sq.elem)
            raise Unsupported(f"slice of {T.tname(obj.ty)}", node)
        idx = self.ev(sl, st)
        return self.get_item(st, obj, idx, node)

    def get_item(self, st, obj: Val, idx: Val, node):
        ty = T.strip_opt(obj.ty)
        if ty is str:
            s = V.sval(obj.t)
            i2 = self.norm_index(st, z3.Length(s), self.as_int(st, idx, node), node, "string")
            return Val(mks(z3.SubString(s, i2, 1)), str)
        if isinstance(ty, (ListT, TupleT)) or ty in (list, tuple):
            sq = self.seq_of(st, obj, node)
            # constant index into a fixed tuple keeps the element hint
            eh = getattr(ty, "elem", None)
            i_term = self.as_int(st, idx, node)
            if isinstance(ty, TupleT) and ty.items is not None:
                ci = simp(i_term)
                if z3.is_int_value(ci):
                    k = ci.as_long()
                    if -len(ty.items) <= k < len(ty.items):
                        eh = ty.items[k]
                else:
                    eh = T.join_types(ty.items)
            i2 = self.norm_index(st, sq.n, i_term, node, "sequence")
            v = Val(simp(sq.at(i2)), eh)
            self.assume_type(st, v)
            self.assume_allocated(st, v.t)
            return v
        if isinstance(ty, DictT) or ty is dict:
            oid = self.as_ref(st, obj, node, "dict")
            has = st.arr("$dhas")[oid][idx.t]
            self.oblige(st, has, f"safe.key@{node.lineno}", "safe", node, "dict key present (KeyError)")
            self.safe_assume(st, has)
            v = Val(st.arr("$dmap")[oid][idx.t], getattr(ty, "v", None))
            self.assume_type(st, v)
            self.assume_allocated(st, v.t)
            return v
        if isinstance(ty, type):
            for k in ty.__mro__:
                h = self.w.handlers.get(f"{k.__module__}.{k.__qualname__}.__getitem__")
                if h:
                    return h(self, st, [obj, idx], {}, node)
        raise Unsupported(f"subscript of {T.tname(obj.ty)}", node)

    # conditions -----------------------------------------------------------------
    def cond(self, node, st):
        """-> (Bool term, narrowings if true, narrowings if false); narrowings: {name: hint}"""
        if isinstance(node, ast.UnaryOp) and isinstance(node.op, ast.Not):
            c, nt, nf = self.cond(node.operand, st)
            return z3.Not(c), nf, nt
        if isinstance(node, ast.BoolOp):
            is_and = isinstance(node.op, ast.And)
            tmp = fresh_name("$bc")
            narrow_acc = {}

            def go(i, s):
                c, nt, nf = self.cond(node.values[i], s)
                if is_and:
                    narrow_acc.update(nt)
                else:
                    narrow_acc.update(nf)
                if i == len(node.values) - 1:
                    s.env[tmp] = Val(mkb(c), bool)
                    return

                def cont(s2):
                    self.apply_narrow(s2, nt if is_and else nf)
                    go(i + 1, s2)

                def stop(s2):
                    s2.env[tmp] = Val(mkb(not is_and), bool)

                if is_and:
                    self.branch(s, c, cont, stop)
                else:
                    self.branch(s, c, stop, cont)

            saved = {k: st.env[k].ty for k in list(st.env.keys())}
            go(0, st)
            if self.dead(st):
                return FALSE, {}, {}
            out = st.env.pop(tmp)
            # narrowing applied inside must not leak to the false side: restore hints, return as narrowings
            for k, ty in saved.items():
                if k in st.env and repr(st.env[k].ty) != repr(ty) and k not in _assigned_names(node):
                    st.env[k] = Val(st.env[k].t, ty, st.env[k].py, st.env[k].parts)
            c = V.bval(out.t)
            return (c, narrow_acc, {}) if is_and else (c, {}, narrow_acc)
        if isinstance(node, ast.Compare):
            return self.cond_compare(node, st)
        if isinstance(node, ast.Call) and isinstance(node.func, ast.Name) and node.func.id == "isinstance" and len(node.args) == 2:
            fv = self.lookup(st, "isinstance", node)
            if fv.py is _builtins.isinstance:
                v = self.ev(node.args[0], st)
                ctv = self.ev(node.args[1], st)
                classes = self._classes_of(ctv, node)
                c = self.isinstance_term(st, v, classes)
                nt, nf = {}, {}
                tgt = node.args[0]
                nm = tgt.id if isinstance(tgt, ast.Name) else (tgt.target.id if isinstance(tgt, ast.NamedExpr) else None)
                if nm and len(classes) == 1:
                    nt[nm] = _hint_of_class(classes[0])
                elif nm and len(classes) > 1:
                    nt[nm] = T.join_types([_hint_of_class(c_) for c_ in classes])
                if nm and isinstance(v.ty, Opt) and len(classes) == 1 and v.ty.t is classes[0]:
                    nf[nm] = NoneType
                if nm and isinstance(v.ty, UnionT):
                    yes = [m for m in v.ty.members if T.class_of_hint(m) is not None and any(issubclass(T.class_of_hint(m), c_) for c_ in classes)]
                    no = [m for m in v.ty.members if m not in yes]
                    if yes:
                        nt[nm] = yes[0] if len(yes) == 1 else UnionT(yes)
                    if no:
                        nf[nm] = no[0] if len(no) == 1 else UnionT(no)
                return c, nt, nf
        if isinstance(node, ast.NamedExpr):
            v = self.ev(node, st)
            c = self.truthy(st, v)
            nt = {}
            if isinstance(v.ty, Opt):
                nt[node.target.id] = v.ty.t
            return c, nt, {}
        v = self.ev(node, st)
        c = self.truthy(st, v)
        nt, nf = {}, {}
        if isinstance(node, ast.Name) and isinstance(v.ty, Opt):
            nt[node.id] = v.ty.t
        return c, nt, nf

    def _classes_of(self, ctv: Val, node):
        if isinstance(ctv.py, type):
            return (ctv.py,)
        if isinstance(ctv.ty, TupleT) and ctv.parts and all(isinstance(p, Val) and isinstance(p.py, type) for p in ctv.parts):
            return tuple(p.py for p in ctv.parts)
        if isinstance(ctv.py, tuple) and all(isinstance(p, type) for p in ctv.py):
            return tuple(ctv.py)
        raise Unsupported("isinstance with non-constant class", node)

    def isinstance_term(self, st, v: Val, classes):
        t = v.t
        parts = []
        refcls = []
        for c in classes:
            if c is str:
                parts.append(V.is_s(t))
            elif c is int:
                parts.append(z3.Or(V.is_i(t), V.is_b(t)))
            elif c is bool:
                parts.append(V.is_b(t))
            elif c is NoneType:
                parts.append(V.is_none(t))
            elif c is object:
                parts.append(TRUE)
            else:
                refcls.append(c)
        if refcls:
            # static shortcut
            ty = v.ty
            if isinstance(ty, type) and ty not in (int, str, bool, NoneType) and any(issubclass(ty, c) for c in refcls):
                parts.append(TRUE)
            elif ty in (int, str, bool, NoneType):
                pass
            else:
                parts.append(z3.And(V.is_r(t), self.w.classes.isa(CLS(V.rid(t)), tuple(refcls) if len(refcls) > 1 else refcls[0])))
        return z3.Or(parts) if len(parts) != 1 else parts[0]

    def cond_compare(self, node: ast.Compare, st):
        left = self.ev(node.left, st)
        conj = []
        nt, nf = {}, {}
        cur = left
        cur_node = node.left
        for op, rn in zip(node.ops, node.comparators):
            right = self.ev(rn, st)
            c = self.compare(st, op, cur, right, node)
            conj.append(c)
            # narrowing for `x is None` / `x is not None`
            if isinstance(op, (ast.Is, ast.IsNot)) and isinstance(cur_node, ast.Name) and right.ty is NoneType and isinstance(cur.ty, Opt):
                if isinstance(op, ast.Is):
                    nt[cur_node.id] = NoneType
                    nf[cur_node.id] = cur.ty.t
                else:
                    nt[cur_node.id] = cur.ty.t
                    nf[cur_node.id] = NoneType
            cur, cur_node = right, rn
        return (z3.And(conj) if len(conj) > 1 else conj[0]), nt, nf

    def compare(self, st, op, a: Val, b: Val, node):
        if isinstance(op, ast.Eq):
            return self.py_eq(st, a, b)
        if isinstance(op, ast.NotEq):
            return z3.Not(self.py_eq(st, a, b))
        if isinstance(op, ast.Is):
            return a.t == b.t
        if isinstance(op, ast.IsNot):
            return a.t != b.t
        if isinstance(op, (ast.Lt, ast.LtE, ast.Gt, ast.GtE)):
            if a.ty is str and b.ty is str:
                raise Unsupported("string ordering", node)
            x, y = self.as_int(st, a, node, "ordered comparison needs ints"), self.as_int(st, b, node, "ordered comparison needs ints")
            return {ast.Lt: x < y, ast.LtE: x <= y, ast.Gt: x > y, ast.GtE: x >= y}[type(op)]
        if isinstance(op, (ast.In, ast.NotIn)):
            c = self.contains(st, b, a, node)
            return c if isinstance(op, ast.In) else z3.Not(c)
        raise Unsupported("comparison op", node)

    def contains(self, st, container: Val, item: Val, node):
        ty = T.strip_opt(container.ty)
        if ty is str:
            return z3.Contains(V.sval(container.t), self.as_str(st, item, node, "'in <str>' needs a str"))
        if container.parts is not None and isinstance(ty, (ListT, TupleT, SetT)) and all(isinstance(p, Val) for p in container.parts):
            return z3.Or([self.py_eq(st, item, p) for p in container.parts]) if container.parts else FALSE
        if isinstance(container.py, (tuple, list, set, frozenset)):
            return z3.Or([self.py_eq(st, item, self.w.const(p)) for p in container.py]) if container.py else FALSE
        if isinstance(ty, (ListT, TupleT)):
            sq = self.seq_of(st, container, node)
            i = z3.Int(fresh_name("in!i"))
            return z3.Exists([i], z3.And(i >= 0, i < sq.n, self.py_eq(st, item, Val(sq.at(i), sq.elem))))
        if isinstance(ty, DictT):
            return st.arr("$dhas")[V.rid(container.t)][item.t]
        raise Unsupported(f"'in' on {T.tname(container.ty)}", node)

    def apply_narrow(self, st, narrowings):
        for nm, ty in narrowings.items():
            if nm in st.env:
                v = st.env[nm]
                if v.py is None:
                    st.env[nm] = Val(v.t, ty, None, v.parts)

    # ------------------------------------------------------------------ branching
    def branch(self, st: State, c, then_fn, else_fn):
        cs = simp(c)
        if z3.is_true(cs):
            then_fn(st)
            return
        if z3.is_false(cs):
            else_fn(st)
            return
        if getattr(self, "prune", False):
            # focus runs: drop a branch the entry assumptions already exclude (a refutation by the solver; `unknown` keeps it)
            if self._infeasible(st, cs):
                else_fn(st)
                return
            if self._infeasible(st, z3.Not(cs)):
                then_fn(st)
                return
        a = st.fork()
        a.assume(cs)
        then_fn(a)
        b = st.fork()
        b.assume(z3.Not(cs))
        else_fn(b)
        alive = [s for s in (a, b) if not self.dead(s)]
        if not alive:
            self.kill(st)
            return
        j = join(alive)
        self.become(st, j)

    def _infeasible(self, st: State, c) -> bool:
        """refutation of `pc and c` by a solver *process* with a hard timeout (an in-process check with a soft timeout can hang
        inside the string solver); anything but `unsat` keeps the branch"""
        import os
        import subprocess
        import tempfile

        from .solve import Z3NEW

        # pruning is an optimisation with a budget: the decisive prunes are the early ones (entry assumption vs. the first tests)
        n = getattr(self, "_prune_n", 0)
        if n >= 30:
            return False
        self._prune_n = n + 1
        return self._infeasible_run(st, c, Z3NEW)

    def _infeasible_run(self, st: State, c, Z3NEW) -> bool:
        import os
        import subprocess
        import tempfile

        sol = z3.Solver()
        for h in self.w.axioms:
            sol.add(h)
        for h in st.pc:
            sol.add(h)
        sol.add(c)
        fd, path = tempfile.mkstemp(suffix=".smt2", prefix="pyvc_prune_")
        try:
            with os.fdopen(fd, "w") as f:
                f.write(sol.to_smt2())
            try:
                p = subprocess.run([Z3NEW, "-T:2", path], capture_output=True, text=True, timeout=4)
            except subprocess.TimeoutExpired:
                return False
            return p.stdout.strip().splitlines()[:1] == ["unsat"]
        finally:
            try:
                os.unlink(path)
            except OSError:
                pass

    def become(self, st: State, j: State):
        st.env, st.bound, st.heap, st.ghost, st.pc, st.nalloc = j.env, j.bound, j.heap, j.ghost, j.pc, j.nalloc
        if getattr(j, "dead", False):
            st.dead = True

    # ------------------------------------------------------------------ raising
    def raise_exc(self, st: State, excval: Val, node=None):
        self.push_outcome("raise", st.fork(), excval, node)
        self.kill(st)

    def raise_new(self, st: State, cls, node=None, fields=None):
        e = self.new_object(st, cls)
        for k, v in (fields or {}).items():
            st.heap[k] = z3.Store(st.arr(k), V.rid(e.t), v.t)
        self.raise_exc(st, e, node)

    def raise_if(self, st: State, c, cls, node=None, fields=None):
        """conditional implicit/explicit exception: fork a raising path under c, continue under not c"""
        cs = simp(c)
        if z3.is_false(cs) or self.spec is not None:
            return
        r = st.fork()
        r.assume(cs)
        self.raise_new(r, cls, node, fields)
        st.assume(z3.Not(cs))
        if z3.is_true(cs):
            self.kill(st)

    # ------------------------------------------------------------------ calls
    def ev_Call(self, node: ast.Call, st: State) -> Val:
        fn = self.ev(node.func, st)
        args = []
        for a in node.args:
            if isinstance(a, ast.Starred):
                sv = self.ev(a.value, st)
                if sv.parts is not None and all(isinstance(p, Val) for p in sv.parts):
                    args.extend(sv.parts)
                else:
                    raise Unsupported("*args with unknown arity", node)
            else:
                args.append(self.ev_arg(a, st))
        kwargs = {}
        for k in node.keywords:
            if k.arg is None:
                if isinstance(k.value, ast.Dict) and k.value.keys and all(isinstance(x, ast.Constant) and isinstance(x.value, str) for x in k.value.keys):
                    # **{"from": e, ...}: a dict display with constant string keys is keyword arguments spelled differently
                    # (used for names that are Python keywords); evaluated left to right like keywords
                    for kk, vv in zip(k.value.keys, k.value.values):
                        kwargs[kk.value] = self.ev_arg(vv, st)
                    continue
                kv = self.ev(k.value, st)
                if getattr(kv, "is_own_kwargs", False):
                    # forwarding this function's own **kwargs: extra keyword arguments nobody names (the contracts of the
                    # callees used here accept and ignore unknown keywords); they carry no information
                    continue
                raise Unsupported("**kwargs in call", node)
            kwargs[k.arg] = self.ev_arg(k.value, st)
        return self.call(st, fn, args, kwargs, node)

    def ev_arg(self, a, st):
        if isinstance(a, ast.GeneratorExp):
            return Val(NONE, None, py=("genexp", a))
        return self.ev(a, st)

    def call(self, st, fn: Val, args, kwargs, node) -> Val:
        py = fn.py
        if isinstance(py, Closure):
            return self.call_closure(st, py, args, kwargs, node)
        if isinstance(py, BoundMethod):
            return self.call_method(st, py, args, kwargs, node)
        if self.spec is not None and isinstance(py, SpecCallable):
            return py.fn(self, st, args, kwargs, node)
        if py is None:
            raise Unsupported("call of a non-constant callable", node)
        selfobj = getattr(py, "__self__", None)
        if isinstance(selfobj, dict) and getattr(py, "__name__", "") == "get" and all(isinstance(k, (str, int)) for k in selfobj):
            # .get on a module-level constant dict: exact ite chain over its items (read from the real module)
            key = args[0]
            default = args[1] if len(args) > 1 else Val(NONE, NoneType)
            acc = default.t
            tys = [default.ty]
            for k_, v_ in reversed(list(selfobj.items())):
                cv = self.w.const(v_)
                acc = z3.If(self.py_eq(st, key, self.w.const(k_)), cv.t, acc)
                tys.append(cv.ty)
            return Val(simp(acc), T.join_types(tys))
        name = canonical_name(py) if not isinstance(py, str) else py
        # python handler (builtins / externs modelled in python)
        h = self._find_handler(py, name)
        if h is not None:
            import types as _types

            if selfobj is not None and not isinstance(selfobj, (type, _types.ModuleType)):
                args = [self.w.const(selfobj)] + list(args)  # bound method of a real (constant) object
            return h(self, st, args, kwargs, node)
        if isinstance(py, type):
            return self.construct(st, py, args, kwargs, node)
        c = self.w.contracts.get(name)
        if c is not None:
            return self.apply_contract(c, st, args, kwargs, node)
        raise Unsupported(f"call to {name or py!r} without contract", node)

    def _find_handler(self, py, name):
        h = self.w.handlers.get(name) if name else None
        if h is None:
            so = getattr(py, "__self__", None)
            if so is not None and not isinstance(so, type) and hasattr(py, "__name__"):
                h = self.w.handlers.get(f"{type(so).__module__}.{type(so).__qualname__}.{py.__name__}")
        if h is None:
            try:
                h = self.w.handlers.get(py)
            except TypeError:
                h = None
        return h

    def call_handler(self, name, st, args, kwargs, node):
        h = self.w.handlers.get(name)
        if h is None:
            raise Unsupported(f"no model for {name}", node)
        return h(self, st, args, kwargs, node)

    def call_method(self, st, bm: BoundMethod, args, kwargs, node):
        recv = bm.recv
        ty = T.strip_opt(recv.ty)
        if ty in (str, int, bool):
            return self.call_handler(f"{ty.__name__}.{bm.name}", st, [recv] + args, kwargs, node)
        if isinstance(ty, (ListT, TupleT)):
            return self.call_handler(f"{'list' if isinstance(ty, ListT) else 'tuple'}.{bm.name}", st, [recv] + args, kwargs, node)
        if isinstance(ty, DictT):
            return self.call_handler(f"dict.{bm.name}", st, [recv] + args, kwargs, node)
        if isinstance(ty, SetT):
            return self.call_handler(f"set.{bm.name}", st, [recv] + args, kwargs, node)
        if isinstance(ty, type):
            # find the defining class for canonical naming
            for k in ty.__mro__:
                cn = f"{k.__module__}.{k.__qualname__}.{bm.name}"
                h = self.w.handlers.get(cn)
                if h is not None:
                    return h(self, st, [recv] + args, kwargs, node)
                c = self.w.contracts.get(cn)
                if c is not None:
                    return self.apply_contract(c, st, [recv] + args, kwargs, node)
            raise Unsupported(f"method {ty.__module__}.{ty.__qualname__}.{bm.name} without contract", node)
        raise Unsupported(f"method {bm.name} on {T.tname(recv.ty)}", node)

    def construct(self, st, cls, args, kwargs, node):
        # class with a contract on __init__ (repo classes) or a constructor handler; else plain data object
        cn = f"{cls.__module__}.{cls.__qualname__}"
        h = self.w.handlers.get(cn + ".__new__")
        if h is not None:
            return h(self, st, args, kwargs, node)
        for k in cls.__mro__:
            h = self.w.handlers.get(f"{k.__module__}.{k.__qualname__}.__new__*")
            if h is not None:
                return h(self, st, cls, args, kwargs, node)
        c = self.w.contracts.get(cn + ".__init__")
        if c is not None:
            obj = self.new_object(st, cls)
            self.apply_contract(c, st, [obj] + args, kwargs, node)
            return obj
        if isinstance(cls, type) and issubclass(cls, BaseException):
            e = self.new_object(st, cls)
            oid = V.rid(e.t)
            for k, v in kwargs.items():
                st.heap[k] = z3.Store(st.arr(k), oid, v.t)
            tup = self.new_seq_lit(st, tuple, list(args))
            st.heap["$exc_args"] = z3.Store(st.arr("$exc_args"), oid, tup.t)  # BaseException.args (not Expression.args)
            return e
        raise Unsupported(f"constructor {cn} without contract", node)

    def call_closure(self, st, cl: Closure, args, kwargs, node):
        fnode = cl.node
        # a nested def with its own sidecar contract is used modularly (contract, not body)
        if isinstance(fnode, ast.FunctionDef) and not getattr(self, "_inline_only", False):
            cn = f"{self.module.__name__}.{self.qualname.split('.<locals>.')[0]}.<locals>.{fnode.name}"
            c = self.w.contracts.get(cn)
            if c is not None and c is not self.contract:
                return self.apply_contract(c, st, args, kwargs, node)
        a = fnode.args
        names = [x.arg for x in a.posonlyargs + a.args]
        if a.vararg or a.kwarg:
            raise Unsupported("closure with *args/**kwargs", node)
        bind = {}
        for n_, v in zip(names, args):
            bind[n_] = v
        if len(args) > len(names):
            raise Unsupported("closure arity", node)
        for k, v in kwargs.items():
            bind[k] = v
        defaults = a.defaults
        for n_, d in zip(names[len(names) - len(defaults):], defaults):
            if n_ not in bind:
                bind[n_] = self.ev(d, st)
        for n_ in names:
            if n_ not in bind:
                raise Unsupported("closure missing argument", node)
        saved_env, saved_bound = st.env, st.bound
        st.env = dict(saved_env)
        st.bound = dict(saved_bound)
        st.env.update(bind)
        for n_ in bind:
            st.bound.pop(n_, None)
        tmp = fresh_name("$ret")
        if isinstance(fnode, ast.Lambda):
            rv = self.ev(fnode.body, st)
            st.env, st.bound = saved_env, saved_bound
            return rv
        self.frames.append([])
        self.exec_block(fnode.body, st)
        outs = self.frames.pop()
        rets = []
        if not self.dead(st):
            st.env[tmp] = Val(NONE, NoneType)
            rets.append(st.fork())
        for o in outs:
            if o.kind == "return":
                o.st.env[tmp] = o.val if o.val is not None else Val(NONE, NoneType)
                rets.append(o.st)
            elif o.kind == "raise":
                self.push_outcome("raise", o.st, o.val)
            else:
                raise Unsupported("break/continue escaping closure", node)
        if not rets:
            self.kill(st)
            st.env, st.bound = saved_env, saved_bound
            return Val(NONE, NoneType)
        j = join(rets)
        self.become(st, j)
        rv = st.env[tmp]
        # restore caller locals (closure cannot rebind them: no nonlocal in subset)
        new_env = dict(saved_env)
        st.env = new_env
        st.bound = dict(saved_bound)
        return rv

    # ------------------------------------------------------------------ contracts at call sites
    def bind_params(self, c: Contract, args, kwargs, node):
        names = list(c.params.keys())
        bind = {}
        if len(args) > len(names):
            raise Unsupported(f"too many positional args for {c.name}", node)
        for n_, v in zip(names, args):
            bind[n_] = v
        for k, v in kwargs.items():
            if k not in c.params:
                if "**" in c.params:
                    continue
                raise Unsupported(f"unknown keyword {k} for {c.name}", node)
            bind[k] = v
        for n_ in names:
            if n_ == "**":
                continue
            if n_ not in bind:
                spec = c.params[n_]
                if isinstance(spec, tuple) and len(spec) == 2:
                    bind[n_] = self.w.const(spec[1]) if not isinstance(spec[1], Val) else spec[1]
                else:
                    raise Unsupported(f"missing argument {n_} for {c.name}", node)
        return bind

    @staticmethod
    def param_hint(spec):
        return spec[0] if isinstance(spec, tuple) else spec

    def apply_contract(self, c: Contract, st: State, args, kwargs, node) -> Val:
        from .spec import SpecCtx

        if c.assumed:
            self.trusted_used.add(c.trusted_base or c.name)
        bind = self.bind_params(c, args, kwargs, node)
        cmod = self.w.contract_module(c)
        tag = c.name.split(".")[-1]
        ln = getattr(node, "lineno", 0)
        pre = st.fork()
        # requires
        for k, r in enumerate(c.requires):
            ctx = SpecCtx(self, old=pre, cur=st, names=dict(bind), module=cmod)
            g = ctx.eval_bool(r)
            self.oblige(st, g, f"pre.{tag}.{k}@{ln}", "pre", node, f"precondition of {c.name}: {r}")
            st.assume(g)
        # exceptional outcomes decided by the pre-state
        for exc_cls, spec in c.raises.items():
            when = spec.get("when")
            ctx = SpecCtx(self, old=pre, cur=(st if c.when_facts else pre), names=dict(bind), module=cmod)
            if when is None:
                cnd = self.fresh(f"raises_{exc_cls.__name__}", B)
            else:
                cnd = ctx.eval_bool(when)
            if z3.is_false(simp(cnd)):
                continue
            r = st.fork()
            r.assume(cnd)
            self._havoc_modifies(c, spec.get("modifies", c.modifies if spec.get("inherit_modifies") else []), r, pre, bind)
            e = self.new_object(r, exc_cls)
            for eid, es in (spec.get("ensures") or {}).items():
                ectx = SpecCtx(self, old=pre, cur=r, names={**bind, "exc": e}, module=cmod)
                r.assume(ectx.eval_bool(es))
            self.raise_exc(r, e, node)
            st.assume(z3.Not(cnd))
        for exc_cls in c.may_raise:
            cnd = self.fresh(f"fails_{exc_cls.__name__}", B)
            r = st.fork()
            r.assume(cnd)
            self._havoc_modifies(c, c.modifies, r, pre, bind)
            e = self.new_object(r, exc_cls)
            # the concrete class may be any subclass
            ecls = self.fresh("exc_cls", I)
            eid = self.fresh("exc", I)
            r.assume(eid == V.rid(e.t))
            self.raise_exc(r, e, node)
            st.assume(z3.Not(cnd))
        # normal outcome
        self._havoc_modifies(c, c.modifies, st, pre, bind)
        if c.allocates and not c.pure:
            self.bump_alloc(st)
        hint = c.result
        res = Val(self.fresh(f"res_{tag}", V), hint)
        if hint is NoneType:
            res = Val(NONE, NoneType)
        self.assume_type(st, res)
        if c.fresh_result:
            st.assume(z3.And(V.is_r(res.t), V.rid(res.t) >= self.alloc_term(pre), V.rid(res.t) < self.alloc_term(st)))
        else:
            self.assume_allocated(st, res.t)
        for eid, es in list(c.ensures.items()) + list(c.assumed_ensures.items()):
            if any(eid.startswith(p) for p in c.private):
                continue  # proved for the body, not exported to callers (they would only carry it along as dead weight)
            ctx = SpecCtx(self, old=pre, cur=st, names={**bind, "result": res}, module=cmod)
            st.assume(ctx.eval_bool(es))
        for eid in c.assumed_ensures:
            self.trusted_used.add(f"assumed postcondition {eid} of {c.name}")
        if c.log:
            tag_, names_ = c.log[0], c.log[1]
            if len(c.log) > 2:
                # a dedicated log (prefix, e.g. "$ex"): number of calls and the first two arguments
                pfx = c.log[2]
                n = self.gh(st, pfx + "_n")
                st.ghost[pfx + "_cmd"] = z3.Store(self.gh(st, pfx + "_cmd"), n, bind[names_[0]].t)
                st.ghost[pfx + "_par"] = z3.Store(self.gh(st, pfx + "_par"), n, bind[names_[1]].t)
                st.ghost[pfx + "_n"] = n + 1
            else:
                self.calllog(st, tag_, [bind[n_] for n_ in names_], res)
        for gname, gs in c.ghost_updates.items():
            ctx = SpecCtx(self, old=pre, cur=st, names={**bind, "result": res})
            st.ghost[gname] = ctx.eval_raw(gs)
        return res

    def bump_treever(self, st):
        if "$treever" in self.w.ghost_sorts:
            v = self.fresh("treever", I)
            st.assume(v > self.gh(st, "$treever"))
            st.ghost["$treever"] = v

    def gh(self, st, name):
        g = st.ghost.get(name)
        if g is None:
            g = z3.Const(f"G0_{name}", self.w.ghost_sorts[name])
            st.ghost[name] = g
        return g

    def calllog(self, st, tag, args, res):
        """ghost log of calls to contracts marked log=...: (tag, first two arguments, result)"""
        n = self.gh(st, "$cl_n")
        st.ghost["$cl_tag"] = z3.Store(self.gh(st, "$cl_tag"), n, z3.StringVal(tag))
        st.ghost["$cl_a1"] = z3.Store(self.gh(st, "$cl_a1"), n, args[0].t if len(args) > 0 else NONE)
        st.ghost["$cl_a2"] = z3.Store(self.gh(st, "$cl_a2"), n, args[1].t if len(args) > 1 else NONE)
        st.ghost["$cl_res"] = z3.Store(self.gh(st, "$cl_res"), n, res.t)
        st.ghost["$cl_n"] = n + 1

    def _havoc_modifies(self, c: Contract, modifies, st: State, pre: State, bind):
        from .spec import SpecCtx

        for m in modifies:
            if m.startswith("$ghost:"):
                g = m[len("$ghost:"):]
                old = st.ghost.get(g)
                if old is None:
                    srt = self.w.ghost_sorts.get(g)
                    if srt is None:
                        raise Unsupported(f"ghost {g} not declared")
                    old = z3.Const(f"G0_{g}", srt)
                st.ghost[g] = self.fresh(f"g_{g}", old.sort())
            elif m.startswith("*."):
                f = m[2:]
                if f in ("$dmap", "$dhas", "args", "parent"):
                    self.bump_treever(st)
                st.heap[f] = self.fresh(f"H_{f}", st.arr(f).sort())
            else:
                objexpr, f = m.rsplit(".", 1)
                ctx = SpecCtx(self, old=pre, cur=pre, names=dict(bind))
                o = ctx.eval(objexpr)
                if f in ("$dmap", "$dhas", "args", "parent"):
                    self.bump_treever(st)
                arr = st.arr(f)
                nv = self.fresh(f"hv_{f}", arr.sort().range())
                st.heap[f] = z3.Store(arr, V.rid(o.t), nv)

    # ------------------------------------------------------------------ statements
    def exec_block(self, stmts, st: State):
        for s in stmts:
            if self.dead(st):
                return
            self.exec_stmt(s, st)

    def exec_stmt(self, node, st: State):
        m = getattr(self, "st_" + type(node).__name__, None)
        if m is None:
            raise Unsupported(f"statement {type(node).__name__}", node)
        m(node, st)

    def st_Pass(self, node, st):
        pass

    def st_Expr(self, node, st):
        if isinstance(node.value, ast.Constant):
            return  # docstring
        self.ev(node.value, st)

    def st_Import(self, node, st):
        raise Unsupported("import inside function", node)

    def st_Return(self, node, st):
        v = self.ev(node.value, st) if node.value is not None else Val(NONE, NoneType)
        if self.dead(st):
            return
        self.push_outcome("return", st.fork(), v)
        self.kill(st)

    def st_Break(self, node, st):
        self.push_outcome("break", st.fork())
        self.kill(st)

    def st_Continue(self, node, st):
        self.push_outcome("continue", st.fork())
        self.kill(st)

    def st_Assign(self, node, st):
        v = self.ev(node.value, st)
        if self.dead(st):
            return
        for tgt in node.targets:
            self.assign(st, tgt, v, node)

    def st_AnnAssign(self, node, st):
        if node.value is None:
            return
        v = self.ev(node.value, st)
        if self.dead(st):
            return
        self.assign(st, node.target, v, node)

    def assign(self, st, tgt, v: Val, node):
        if isinstance(tgt, ast.Name):
            self.assign_name(st, tgt.id, v)
        elif isinstance(tgt, ast.Attribute):
            obj = self.ev(tgt.value, st)
            self.set_attr(st, obj, tgt.attr, v, node)
        elif isinstance(tgt, (ast.Tuple, ast.List)):
            sq = self.seq_of(st, v, node)
            n = len(tgt.elts)
            stars = [i for i, e in enumerate(tgt.elts) if isinstance(e, ast.Starred)]
            if stars:
                if len(stars) > 1:
                    raise Unsupported("multiple starred targets", node)
                k = stars[0]
                after = n - k - 1
                self.oblige(st, sq.n >= n - 1, f"safe.unpack@{node.lineno}", "safe", node, "enough values to unpack")
                self.safe_assume(st, sq.n >= n - 1)
                for i, e in enumerate(tgt.elts):
                    if i < k:
                        self.assign(st, e, Val(sq.at(i), sq.elem), node)
                    elif i == k:
                        ln = sq.n - (n - 1)
                        self.assign(st, e.value, self.new_seq(st, list, ln, arr_slice(sq, z3.IntVal(k)), elem=sq.elem), node)
                    else:
                        self.assign(st, e, Val(sq.at(sq.n - (n - i)), sq.elem), node)
                return
            self.oblige(st, sq.n == n, f"safe.unpack@{node.lineno}", "safe", node, f"unpack exactly {n} values")
            self.safe_assume(st, sq.n == n)
            items = v.ty.items if isinstance(v.ty, TupleT) and v.ty.items is not None and len(v.ty.items) == n else None
            eh = getattr(v.ty, "elem", None)
            for i, e in enumerate(tgt.elts):
                if v.parts is not None and len(v.parts) == n and all(isinstance(p, Val) for p in v.parts):
                    ev_ = v.parts[i]
                else:
                    ev_ = Val(simp(sq.at(i)), items[i] if items else eh)
                    self.assume_type(st, ev_)
                    self.assume_allocated(st, ev_.t)
                self.assign(st, e, ev_, node)
        elif isinstance(tgt, ast.Subscript):
            obj = self.ev(tgt.value, st)
            idx = self.ev(tgt.slice, st)
            self.set_item(st, obj, idx, v, node)
        else:
            raise Unsupported("assignment target", node)

    def set_item(self, st, obj, idx, v, node):
        ty = T.strip_opt(obj.ty)
        if isinstance(ty, DictT) or ty is dict:
            oid = self.as_ref(st, obj, node, "dict")
            self.bump_treever(st)
            has = st.arr("$dhas")
            old_has = has[oid][idx.t]
            kl, ke = st.arr("$klen"), st.arr("$kel")
            st.heap["$kel"] = z3.Store(ke, oid, z3.If(old_has, ke[oid], z3.Store(ke[oid], kl[oid], idx.t)))
            st.heap["$klen"] = z3.Store(kl, oid, z3.If(old_has, kl[oid], kl[oid] + 1))
            st.heap["$dhas"] = z3.Store(has, oid, z3.Store(has[oid], idx.t, TRUE))
            dm = st.arr("$dmap")
            st.heap["$dmap"] = z3.Store(dm, oid, z3.Store(dm[oid], idx.t, v.t))
            return
        if isinstance(ty, ListT):
            sq = self.seq_of(st, obj, node)
            i2 = self.norm_index(st, sq.n, self.as_int(st, idx, node), node, "list")
            st.heap["$el"] = z3.Store(st.arr("$el"), V.rid(obj.t), z3.Store(sq.arr, i2, v.t))
            return
        if isinstance(ty, type):
            for k in ty.__mro__:
                h = self.w.handlers.get(f"{k.__module__}.{k.__qualname__}.__setitem__")
                if h:
                    h(self, st, [obj, idx, v], {}, node)
                    return
        raise Unsupported(f"item assignment on {T.tname(obj.ty)}", node)

    def st_AugAssign(self, node, st):
        load = ast.copy_location(ast.BinOp(left=_as_load(node.target), op=node.op, right=node.value), node)
        v = self.ev(load, st)
        if self.dead(st):
            return
        self.assign(st, node.target, v, node)

    def st_If(self, node, st):
        c, nt, nf = self.cond(node.test, st)
        if self.dead(st):
            return

        def a(s):
            self.apply_narrow(s, nt)
            self.exec_block(node.body, s)

        def b(s):
            self.apply_narrow(s, nf)
            self.exec_block(node.orelse, s)

        self.branch(st, c, a, b)

    def st_Assert(self, node, st):
        c, nt, _ = self.cond(node.test, st)
        if self.dead(st):
            return
        mode = (self.contract.locals.get("$asserts") if self.contract else None) or "raise"
        if mode == "safe":
            self.oblige(st, c, f"safe.assert@{node.lineno}", "safe", node, "assert cannot fail")
            st.assume(c)
        else:
            self.raise_if(st, z3.Not(c), AssertionError, node)
        self.apply_narrow(st, nt)

    def st_Raise(self, node, st):
        if node.exc is None:
            raise Unsupported("bare raise", node)
        e = self.ev(node.exc, st)
        if self.dead(st):
            return
        if isinstance(e.py, type):
            e = self.construct(st, e.py, [], {}, node)
        self.raise_exc(st, e, node)

    def st_FunctionDef(self, node, st):
        st.env[node.name] = Val(mkr(self.fresh("fn", I)), None, py=Closure(node, st, node.name, []))
        st.bound.pop(node.name, None)

    def st_Try(self, node, st):
        if node.orelse:
            raise Unsupported("try/else", node)
        self.frames.append([])
        self.exec_block(node.body, st)
        outs = self.frames.pop()
        normals = [] if self.dead(st) else [st.fork()]
        passthrough = []
        for o in outs:
            if o.kind != "raise" or not node.handlers:
                passthrough.append(o)
                continue
            s = o.st
            exc = o.val
            remaining = s
            for h in node.handlers:
                if h.type is None:
                    classes = (BaseException,)
                else:
                    ctv = self.ev(h.type, remaining)
                    classes = self._classes_of(ctv, h)
                c = self.isinstance_term(remaining, exc, classes)
                cs = simp(c)
                if z3.is_false(cs):
                    continue
                hs = remaining.fork()
                hs.assume(cs)
                if h.name:
                    hs.env[h.name] = Val(exc.t, classes[0] if len(classes) == 1 else T.join_types(list(classes)))
                    hs.bound.pop(h.name, None)
                self.frames.append([])
                self.exec_block(h.body, hs)
                houts = self.frames.pop()
                passthrough.extend(houts)
                if not self.dead(hs):
                    normals.append(hs)
                remaining = remaining.fork()
                remaining.assume(z3.Not(cs))
                if z3.is_true(cs):
                    remaining = None
                    break
            if remaining is not None:
                passthrough.append(Outcome("raise", remaining, exc, o.node))
        if node.finalbody:
            new_pass = []
            for o in passthrough:
                self.frames.append([])
                self.exec_block(node.finalbody, o.st)
                fouts = self.frames.pop()
                new_pass.extend(fouts)
                if not self.dead(o.st):
                    new_pass.append(o)
            passthrough = new_pass
            fin_norm = []
            for s in normals:
                self.frames.append([])
                self.exec_block(node.finalbody, s)
                passthrough.extend(self.frames.pop())
                if not self.dead(s):
                    fin_norm.append(s)
            normals = fin_norm
        for o in passthrough:
            self.frames[-1].append(o)
        if not normals:
            self.kill(st)
        else:
            self.become(st, join(normals))

    def st_With(self, node, st):
        if len(node.items) != 1:
            raise Unsupported("with: multiple items", node)
        item = node.items[0]
        cm = self.ev(item.context_expr, st)
        if self.dead(st):
            return
        entered = self.call(st, self.get_attr(st, cm, "__enter__", node), [], {}, node)
        if self.dead(st):
            return
        if item.optional_vars is not None:
            self.assign(st, item.optional_vars, entered, node)
        self.frames.append([])
        self.exec_block(node.body, st)
        outs = self.frames.pop()
        none = Val(NONE, NoneType)
        if not self.dead(st):
            self.call(st, self.get_attr(st, cm, "__exit__", node), [none, none, none], {}, node)
        for o in outs:
            # __exit__ runs on every abrupt exit; contracts used here never swallow exceptions
            exc = o.val if o.kind == "raise" else none
            self.frames.append([])
            r = self.call(o.st, self.get_attr(o.st, cm, "__exit__", node), [exc, exc, exc] if o.kind == "raise" else [none, none, none], {}, node)
            inner = self.frames.pop()
            for io in inner:
                self.frames[-1].append(io)
            if not self.dead(o.st):
                if o.kind == "raise":
                    sup = self.truthy(o.st, r)
                    if not z3.is_false(simp(sup)):
                        raise Unsupported("context manager that may swallow exceptions", node)
                self.frames[-1].append(o)

    # loops ------------------------------------------------------------------------
    def st_For(self, node, st):
        from .loops import exec_for

        exec_for(self, node, st)

    def st_While(self, node, st):
        raise Unsupported("while loop", node)

    # comprehensions -----------------------------------------------------------------
    def ev_ListComp(self, node, st):
        from .loops import eval_comprehension

        return eval_comprehension(self, node, st, list)

    def ev_GeneratorExp(self, node, st):
        from .loops import eval_comprehension

        return eval_comprehension(self, node, st, "gen")

    def ev_DictComp(self, node, st):
        from .loops import eval_dictcomp

        return eval_dictcomp(self, node, st)

    def ev_SetComp(self, node, st):
        raise Unsupported("set comprehension", node)

    def ev_Await(self, node, st):
        return self.ev(node.value, st)

    def ev_Starred(self, node, st):
        raise Unsupported("starred expression", node)


_STR_METHODS = {"upper", "lower", "startswith", "endswith", "strip", "split", "replace", "join", "format", "isdigit"}


def _hint_of_class(c):
    if c is dict:
        return DictT()
    if c is list:
        return ListT()
    if c is tuple:
        return TupleT(elem=None)
    return c


class SpecCallable:
    def __init__(self, fn):
        self.fn = fn


def _as_load(t):
    import copy

    t2 = copy.deepcopy(t)
    for n in ast.walk(t2):
        if hasattr(n, "ctx"):
            n.ctx = ast.Load()
    return t2


def _assigned_names(node):
    return {n.target.id for n in ast.walk(node) if isinstance(n, ast.NamedExpr)}
