"""for-loops cut at sidecar invariants, and comprehensions as quantified summaries."""
from __future__ import annotations

import ast

import z3

from . import types as T
from .sorts import B, CLS, I, NONE, SeqV, V, mkb, mki, mkr
from .state import State, Val, fresh_name, join
from .types import DictT, ListT, NoneType, Opt, TupleT
from .world import Unsupported


def _iter_source(ex, node_iter, st):
    """-> (n: Int term, elem(k: Int term, state) -> Val, kind) for the supported iterables"""
    if isinstance(node_iter, ast.Call) and isinstance(node_iter.func, ast.Name):
        fname = node_iter.func.id
        fv = ex.lookup(st, fname, node_iter)
        import builtins

        if fv.py is builtins.range:
            if len(node_iter.args) == 1:
                n = ex.as_int(st, ex.ev(node_iter.args[0], st), node_iter)
                n = z3.If(n < 0, z3.IntVal(0), n)
                return n, (lambda k, s: Val(mki(k), int)), "range"
            raise Unsupported("range with start/step", node_iter)
        if fv.py is builtins.enumerate and len(node_iter.args) == 1:
            n, elem, _ = _iter_source(ex, node_iter.args[0], st)

            def en(k, s):
                e = elem(k, s)
                tup = ex.new_seq(s, tuple, z3.Concat(z3.Unit(mki(k)), z3.Unit(e.t)), items=[int, e.ty])
                tup.parts = [Val(mki(k), int), e]
                return tup

            return n, en, "enumerate"
    v = ex.ev(node_iter, st)
    ty = T.strip_opt(v.ty)
    if isinstance(v.py, tuple) and v.py and v.py[0] == "dict.items":
        d = v.py[1]
        keys = st.arr("$dkeys")[V.rid(d.t)]
        oid = V.rid(d.t)

        def it(k, s):
            kk = Val(keys[k], getattr(d.ty, "k", None))
            ex.assume_type(s, kk)
            vv = Val(s.arr("$dmap")[oid][keys[k]], getattr(d.ty, "v", None))
            ex.assume_type(s, vv)
            tup = ex.new_seq(s, tuple, z3.Concat(z3.Unit(kk.t), z3.Unit(vv.t)), items=[kk.ty, vv.ty])
            tup.parts = [kk, vv]
            return tup

        return z3.Length(keys), it, "items"
    if isinstance(ty, (ListT, TupleT)) or ty in (list, tuple):
        sq = ex.seq_of(st, v, node_iter)
        eh = getattr(ty, "elem", None)
        if isinstance(ty, TupleT) and ty.items is not None:
            eh = T.join_types(ty.items)

        def el(k, s):
            e = Val(sq[k], eh)
            ex.assume_type(s, e)
            ex.assume_allocated(s, e.t)
            return e

        return z3.Length(sq), el, "seq"
    raise Unsupported(f"iteration over {T.tname(v.ty)}", node_iter)


def _modified_by(ex, body, st: State, bind_target):
    """run the body once on a scratch copy to discover which locals / heap arrays / ghosts it may change"""
    scratch = st.fork()
    saved_obl = ex.obligations
    saved_ids = set(ex._obl_ids)
    saved_ord = ex.loop_ord
    ex.obligations = []
    ex.frames.append([])
    try:
        bind_target(scratch, ex.fresh("k_probe", I))
        ex.exec_block(body, scratch)
        outs = ex.frames[-1]
        states = [scratch] if not ex.dead(scratch) else []
        states += [o.st for o in outs]
    finally:
        ex.frames.pop()
        ex.obligations = saved_obl
        ex._obl_ids = saved_ids
        ex.loop_ord = saved_ord
    names, heaps, ghosts = set(), set(), set()
    for s in states:
        for nm, v in s.env.items():
            o = st.env.get(nm)
            if o is None or o.t.get_id() != v.t.get_id():
                if not nm.startswith("$"):
                    names.add(nm)
        for nm, a in s.heap.items():
            o = st.heap.get(nm)
            if o is None:
                o = st.heap0.get(nm)
            if o is None or o.get_id() != a.get_id():
                heaps.add(nm)
        for nm, g in s.ghost.items():
            o = st.ghost.get(nm)
            if o is None or o.get_id() != g.get_id():
                ghosts.add(nm)
    return names, heaps, ghosts


def exec_for(ex, node: ast.For, st: State):
    from .spec import SpecCtx

    if node.orelse:
        raise Unsupported("for/else", node)
    ex.loop_ord += 1
    ordinal = ex.loop_ord
    spec = (ex.contract.loops.get(ordinal) if ex.contract else None) or {}
    invs = list(spec.get("inv", []))
    n, elem, kind = _iter_source(ex, node.iter, st)
    if ex.dead(st):
        return
    kname = spec.get("k", "_k")

    def bind_target(s, k):
        e = elem(k, s)
        ex.assign(s, node.target, e, node)

    pre = st.fork()
    names, heaps, ghosts = _modified_by(ex, node.body, st, bind_target)
    # the loop target(s) are modified too
    for t in ast.walk(node.target):
        if isinstance(t, ast.Name):
            names.add(t.id)

    def inv_terms(s, k):
        out = []
        for src in invs:
            ctx = SpecCtx(ex, old=pre, cur=s, names={**_locals_as_names(s), kname: Val(mki(k), int), "_n": Val(mki(n), int)})
            out.append((src, ctx.eval_bool(src)))
        return out

    # 1. invariant holds on entry (k = 0)
    for j, (src, t) in enumerate(inv_terms(st, z3.IntVal(0))):
        ex.oblige(st, t, f"inv.entry.L{ordinal}.{j}@{node.lineno}", "inv", node, f"loop invariant on entry: {src}")
    # 2. arbitrary iteration
    h = st.fork()
    for nm in names:
        old = h.env.get(nm)
        ty = old.ty if old is not None else None
        declared = (ex.contract.locals.get(nm) if ex.contract else None)
        if declared is not None:
            ty = declared
        h.env[nm] = Val(ex.fresh(f"lv_{nm}", V), ty)
        ex.assume_type(h, h.env[nm])
        if old is None:
            # not bound before the loop: bound only if an iteration ran (handled by invariant authors); keep flag
            h.bound[nm] = ex.fresh(f"bound_{nm}", B)
    for nm in heaps:
        h.heap[nm] = ex.fresh(f"Hl_{nm}", h.arr(nm).sort())
    for nm in ghosts:
        if nm == "$alloc":
            a = ex.fresh("alloc", I)
            h.assume(a >= ex.alloc_term(st))
            h.ghost[nm] = a
        else:
            h.ghost[nm] = ex.fresh(f"gl_{nm}", h.ghost[nm].sort())
    k = ex.fresh("k", I)
    it = h.fork()
    it.assume(z3.And(k >= 0, k < n))
    for src, t in inv_terms(it, k):
        it.assume(t)
    bind_target(it, k)
    for nm in names:
        it.bound.pop(nm, None) if nm in _target_names(node.target) else None
    ex.frames.append([])
    ex.exec_block(node.body, it)
    outs = ex.frames.pop()
    ends = [] if ex.dead(it) else [it]
    breaks = []
    for o in outs:
        if o.kind == "continue":
            ends.append(o.st)
        elif o.kind == "break":
            breaks.append(o.st)
        else:
            ex.frames[-1].append(o)
    for e_i, s in enumerate(ends):
        for j, (src, t) in enumerate(inv_terms(s, k + 1)):
            ex.oblige(s, t, f"inv.step.L{ordinal}.{j}@{node.lineno}", "inv", node, f"loop invariant preserved: {src}")
    # 3. exit: exhausted (k == n) or break
    exh = h.fork()
    for src, t in inv_terms(exh, n):
        exh.assume(t)
    # target variables bound iff n > 0 (python keeps the previous binding otherwise)
    for nm in _target_names(node.target):
        if nm not in st.env:
            exh.bound[nm] = n > 0
        else:
            exh.bound.pop(nm, None)
    for nm in names:
        if nm in exh.bound and nm not in _target_names(node.target):
            if nm in st.env:
                exh.bound.pop(nm, None)
            else:
                exh.bound[nm] = n > 0
    exits = [exh] + breaks
    j = join(exits)
    ex.become(st, j)


def _target_names(t):
    return {x.id for x in ast.walk(t) if isinstance(x, ast.Name)}


def _locals_as_names(s: State):
    return {k: v for k, v in s.env.items()}


# ------------------------------------------------------------------------------------------- comprehensions
def eval_comprehension(ex, node, st: State, kind):
    """[f(x) for x in xs] -> fresh list L with len(L) == len(xs) and forall j: L[j] == f(xs[j]).

    The element expression is evaluated once for a symbolic index j; every fresh constant created while
    doing so (allocated objects, extern results) is skolemised into a function of j.  Heap effects of the
    element expression are only allowed on objects it allocates itself.
    Filters (`if`) give a result whose length is only bounded (<= len(xs)) with element-wise membership; the
    executor reports that precisely enough only for any()/all()/join uses, see handlers.
    """
    if len(node.generators) != 1:
        raise Unsupported("nested comprehension", node)
    gen = node.generators[0]
    if gen.is_async:
        raise Unsupported("async comprehension", node)
    n, elem, _ = _iter_source(ex, gen.iter, st)
    if ex.dead(st):
        return Val(NONE, NoneType)
    j = z3.Int(fresh_name("cj"))
    body = st.fork()
    body.assume(z3.And(j >= 0, j < n))
    saved_created = ex.created_consts
    ex.created_consts = []
    pre_alloc = ex.alloc_term(st)
    ex.frames.append([])
    try:
        e = elem(j, body)
        ex.assign(body, gen.target, e, node)
        conds = []
        for c in gen.ifs:
            ct, nt, _ = ex.cond(c, body)
            conds.append(ct)
            ex.apply_narrow(body, nt)
            body.assume(ct)
        val = ex.ev(node.elt, body)
        outs = ex.frames[-1]
    finally:
        ex.frames.pop()
        created = ex.created_consts
        ex.created_consts = saved_created
    for o in outs:
        if o.kind == "raise":
            # an element evaluation may raise: the whole comprehension raises (state of that iteration is lost: havoc-free
            # because element expressions may only touch their own fresh objects)
            r = st.fork()
            r.assume(z3.Exists([j], z3.And(j >= 0, j < n, z3.And(o.st.pc[len(st.pc):]) if len(o.st.pc) > len(st.pc) else z3.BoolVal(True))))
            ex.push_outcome("raise", r, o.val)
            st.assume(z3.ForAll([j], z3.Implies(z3.And(j >= 0, j < n), z3.Not(z3.And(o.st.pc[len(st.pc):]) if len(o.st.pc) > len(st.pc) else z3.BoolVal(True)))))
        else:
            raise Unsupported("abrupt exit inside comprehension", node)
    if ex.dead(body):
        # element expression always raises when there is an element
        st.assume(n == 0)
    # skolemise created constants as functions of j
    subs = []
    for c in created:
        f = z3.Function(fresh_name("sk_" + str(c.decl().name()).split("!")[0]), I, c.sort())
        subs.append((c, f(j)))
    facts = [p for p in body.pc[len(st.pc):]]
    fact = z3.And(facts) if facts else z3.BoolVal(True)
    # heap changes: only on fresh objects -> express the new arrays by quantified facts
    new_heap = {}
    heap_facts = []
    for nm, arr in body.heap.items():
        old = st.heap.get(nm)
        if old is None:
            old = st.heap0.get(nm)
        if old is not None and old.get_id() == arr.get_id():
            continue
        if old is None:
            continue
        fresh_arr = ex.fresh(f"Hc_{nm}", arr.sort())
        new_heap[nm] = (old, arr, fresh_arr)
    result_len = ex.fresh("clen", I)
    if kind == "gen":
        tag = "gen"
    has_filter = bool(gen.ifs)
    L = ex.new_seq(st, list, ex.fresh("cseq", SeqV), elem=val.ty)
    Lseq = st.arr("$seq")[V.rid(L.t)]
    if not has_filter:
        st.assume(z3.Length(Lseq) == n)
        elem_fact = z3.And(fact, Lseq[j] == val.t) if not ex.dead(body) else z3.BoolVal(True)
    else:
        # filtered: result is a subsequence; we only state the bound and, for every result element, that it
        # is the image of some source index satisfying the filter
        st.assume(z3.And(z3.Length(Lseq) <= n, z3.Length(Lseq) >= 0))
        idx = z3.Function(fresh_name("cidx"), I, I)
        m = z3.Int(fresh_name("cm"))
        st.assume(z3.ForAll([m], z3.Implies(z3.And(m >= 0, m < z3.Length(Lseq)), z3.And(idx(m) >= 0, idx(m) < n))))
        st.assume(z3.ForAll([m, ], z3.Implies(z3.And(m >= 0, m + 1 < z3.Length(Lseq)), idx(m) < idx(m + 1))))
        elem_fact = None
        L.py = None
        L.parts = None
        # record for handlers that want the per-source-index view
        L_filter_info = (j, n, z3.And(conds), val, subs, fact)
        setattr(L, "_filter", L_filter_info) if False else None
    # apply heap changes
    for nm, (old, arr, fresh_arr) in new_heap.items():
        st.heap[nm] = fresh_arr
        o = z3.Int(fresh_name("co"))
        st.assume(z3.ForAll([o], z3.Implies(o < pre_alloc, fresh_arr[o] == old[o])))
    if elem_fact is not None:
        # facts about fresh objects' heap contents: arr[x] == fresh_arr[x] for the created object ids
        hf = []
        for nm, (old, arr, fresh_arr) in new_heap.items():
            for c in created:
                if c.sort() == I and str(c.decl().name()).startswith("obj"):
                    hf.append(fresh_arr[c] == arr[c])
        body_fact = z3.And([elem_fact] + hf) if hf else elem_fact
        body_fact = z3.substitute(body_fact, subs) if subs else body_fact
        st.assume(z3.ForAll([j], z3.Implies(z3.And(j >= 0, j < n), body_fact)))
        # fresh objects created per element are distinct and allocated in this comprehension
        for c, fj in subs:
            if c.sort() == I and str(c.decl().name()).startswith("obj"):
                st.assume(z3.ForAll([j], z3.Implies(z3.And(j >= 0, j < n), z3.substitute(z3.And(c >= pre_alloc), subs))))
    ex.bump_alloc(st)
    # all fresh ids below the new allocation pointer
    for c, fj in subs:
        if c.sort() == I and str(c.decl().name()).startswith("obj"):
            st.assume(z3.ForAll([j], z3.Implies(z3.And(j >= 0, j < n), fj < ex.alloc_term(st))))
    if kind == "gen":
        L.ty = ListT(val.ty)
    return L


def eval_dictcomp(ex, node, st: State):
    raise Unsupported("dict comprehension", node)
