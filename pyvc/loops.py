"""for-loops cut at sidecar invariants, and comprehensions as lambda-defined sequences."""
from __future__ import annotations

import ast

import z3

from . import types as T
from .sorts import B, CLS, I, NONE, V, mkb, mki, mkr
from .state import SeqView, State, Val, arr_lit, fresh_name, join
from .types import DictT, ListT, NoneType, Opt, TupleT
from .world import Unsupported


def _iter_source(ex, node_iter, st):
    """-> (n: Int term, elem(k: Int term, state) -> Val, kind) for the supported iterables"""
    import builtins

    if isinstance(node_iter, ast.Call) and isinstance(node_iter.func, ast.Name):
        fname = node_iter.func.id
        fv = ex.lookup(st, fname, node_iter)
        if fv.py is builtins.range:
            if len(node_iter.args) == 1:
                n = ex.as_int(st, ex.ev(node_iter.args[0], st), node_iter)
                n = z3.If(n < 0, z3.IntVal(0), n)
                return n, (lambda k, s: Val(mki(k), int)), "range"
            raise Unsupported("range with start/step", node_iter)
        if fv.py is builtins.enumerate and len(node_iter.args) == 1:
            n, elem, _ = _iter_source(ex, node_iter.args[0], st)

            def en(k, s):
                e = elem(k, s)
                return ex.new_seq_lit(s, tuple, [Val(mki(k), int), e], items=[int, e.ty])

            return n, en, "enumerate"
    v = ex.ev(node_iter, st)
    return iter_value(ex, v, st, node_iter)


def iter_value(ex, v: Val, st, node):
    ty = T.strip_opt(v.ty)
    if isinstance(v.py, tuple) and v.py and v.py[0] == "dict.items":
        d = v.py[1]
        keys = ex.keys_of(st, d, node)
        oid = V.rid(d.t)

        def it(k, s):
            kk = Val(keys.at(k), getattr(d.ty, "k", None))
            ex.assume_type(s, kk)
            vv = Val(s.arr("$dmap")[oid][keys.at(k)], getattr(d.ty, "v", None))
            ex.assume_type(s, vv)
            return ex.new_seq_lit(s, tuple, [kk, vv], items=[kk.ty, vv.ty])

        return keys.n, it, "items"
    if isinstance(v.py, tuple) and v.py and v.py[0] == "dict.values":
        d = v.py[1]
        keys = ex.keys_of(st, d, node)
        oid = V.rid(d.t)

        def itv(k, s):
            vv = Val(s.arr("$dmap")[oid][keys.at(k)], getattr(d.ty, "v", None))
            ex.assume_type(s, vv)
            return vv

        return keys.n, itv, "values"
    from .types import UnionT

    if isinstance(ty, (ListT, TupleT)) or ty in (list, tuple) or (isinstance(ty, UnionT) and all(isinstance(m, (ListT, TupleT)) for m in ty.members)):
        sq = ex.seq_of(st, v, node)

        def el(k, s):
            e = Val(sq.at(k), sq.elem)
            ex.assume_type(s, e)
            ex.assume_allocated(s, e.t)
            return e

        return sq.n, el, "seq"
    if ty is None:
        # duck typing: iterating a value of unknown type needs it to be a list / tuple (else TypeError)
        from .sorts import CLS

        isseq = z3.And(V.is_r(v.t), ex.w.classes.isa(CLS(V.rid(v.t)), (list, tuple)))
        ex.oblige(st, isseq, f"safe.iter@{getattr(node, 'lineno', 0)}", "safe", node, "iterated value is a list or tuple")
        ex.safe_assume(st, isseq)
        oid = V.rid(v.t)
        n_ = st.arr("$len")[oid]
        st.assume(n_ >= 0)
        arr_ = st.arr("$el")[oid]

        def el_any(k, s):
            e = Val(z3.Select(arr_, k), None)
            ex.assume_allocated(s, e.t)
            return e

        return n_, el_any, "seq"
    if isinstance(ty, type):
        for k in ty.__mro__:
            h = ex.w.handlers.get(f"{k.__module__}.{k.__qualname__}.__iter__")
            if h:
                return h(ex, st, [v], {}, node)
    raise Unsupported(f"iteration over {T.tname(v.ty)}", node)


def _modified_by(ex, body, st: State, bind_target):
    """run the body once on a scratch copy to discover which locals / heap arrays / ghosts it may change"""
    scratch = st.fork()
    saved_obl = ex.obligations
    saved_ids = set(ex._obl_ids)
    saved_ord = ex.loop_ord
    saved_created = ex.created_consts
    ex.created_consts = []
    ex.obligations = []
    ex.frames.append([])
    try:
        bind_target(scratch, ex.fresh("k_probe", I))
        ex.exec_block(body, scratch)
        outs = ex.frames[-1]
        states = [scratch] if not ex.dead(scratch) else []
        states += [o.st for o in outs]
    finally:
        ex.frames.pop()
        ex.obligations = saved_obl
        ex._obl_ids = saved_ids
        ex.loop_ord = saved_ord
        created = ex.created_consts
        ex.created_consts = saved_created
    fresh_ids = {c.get_id() for c in created if c.sort() == I and str(c.decl().name()).startswith("obj")}
    created_ids = {c.get_id() for c in created}
    names, heaps, ghosts = set(), set(), set()
    fresh_only = {}
    for s in states:
        for nm, v in s.env.items():
            o = st.env.get(nm)
            if o is None or o.t.get_id() != v.t.get_id():
                if not nm.startswith("$"):
                    names.add(nm)
        for nm, a in s.heap.items():
            o = st.heap.get(nm)
            if o is None:
                o = st.heap0.get(nm)
            if o is None or o.get_id() != a.get_id():
                heaps.add(nm)
                base = o if o is not None else st.arr(nm)
                idxs = _store_indices(a, base, fresh_ids, created_ids)
                if idxs is None or fresh_only.get(nm, []) is None:
                    fresh_only[nm] = None
                else:
                    cur = fresh_only.get(nm, [])
                    for ix in idxs:
                        if all(ix.get_id() != c_.get_id() for c_ in cur):
                            cur.append(ix)
                    fresh_only[nm] = cur
        for nm, g in s.ghost.items():
            o = st.ghost.get(nm)
            if o is None or o.get_id() != g.get_id():
                ghosts.add(nm)
    return names, heaps, ghosts, {k: v for k, v in fresh_only.items() if v is not None}


def _mentions(term, ids, seen=None):
    seen = seen if seen is not None else set()
    stack = [term]
    while stack:
        x = stack.pop()
        if x.get_id() in seen:
            continue
        seen.add(x.get_id())
        if x.get_id() in ids:
            return True
        stack.extend(x.children())
    return False


def _store_indices(term, base, fresh_ids, created_ids, depth=0):
    """`term` = base with stores at (a) objects allocated inside the probed code and (b) indices that do not depend on
    anything created inside it (loop-invariant objects such as `self`): returns the list (b), or None if another shape"""
    if term.get_id() == base.get_id():
        return []
    if depth > 300 or not z3.is_app(term):
        return None
    k = term.decl().kind()
    if k == z3.Z3_OP_STORE:
        idx = z3.simplify(term.arg(1))
        rest = _store_indices(term.arg(0), base, fresh_ids, created_ids, depth + 1)
        if rest is None:
            return None
        if idx.get_id() in fresh_ids:
            return rest
        if _mentions(idx, created_ids):
            return None
        return rest + [idx]
    if k == z3.Z3_OP_ITE:
        a_ = _store_indices(term.arg(1), base, fresh_ids, created_ids, depth + 1)
        b_ = _store_indices(term.arg(2), base, fresh_ids, created_ids, depth + 1)
        if a_ is None or b_ is None:
            return None
        return a_ + b_
    return None


def _stores_only_fresh(term, base, fresh_ids, depth=0):
    """is `term` = base with stores only at indices that are objects allocated inside the probed code?"""
    if term.get_id() == base.get_id():
        return True
    if depth > 200:
        return False
    if z3.is_app(term):
        k = term.decl().kind()
        if k == z3.Z3_OP_STORE:
            idx = term.arg(1)
            idx = z3.simplify(idx)
            if idx.get_id() not in fresh_ids:
                # rid(r(obj)) simplifies to obj; anything else is a pre-existing object
                return False
            return _stores_only_fresh(term.arg(0), base, fresh_ids, depth + 1)
        if k == z3.Z3_OP_ITE:
            return _stores_only_fresh(term.arg(1), base, fresh_ids, depth + 1) and _stores_only_fresh(term.arg(2), base, fresh_ids, depth + 1)
    return False


def exec_for(ex, node: ast.For, st: State):
    from .spec import SpecCtx

    if node.orelse:
        raise Unsupported("for/else", node)
    ex.loop_ord += 1
    ordinal = ex.loop_ord
    spec = (ex.contract.loops.get(ordinal) if ex.contract else None) or {}
    invs = list(spec.get("inv", []))
    n, elem, kind = _iter_source(ex, node.iter, st)
    if ex.dead(st):
        return
    kname = spec.get("k", "_k")
    tnames = _target_names(node.target)

    def bind_target(s, k):
        e = elem(k, s)
        ex.assign(s, node.target, e, node)

    pre = st.fork()
    names, heaps, ghosts, fresh_only = _modified_by(ex, node.body, st, bind_target)
    names |= tnames
    entry_alloc = ex.alloc_term(st)

    def inv_terms(s, k):
        out = []
        for src in invs:
            # old(...) in an invariant refers to the entry state of the function
            fpre = getattr(ex, "pre_state", pre)
            # `pre_<param>`: the value a parameter had on entry (the local may have been reassigned since)
            pre_names = {f"pre_{nm}": v for nm, v in fpre.env.items() if not nm.startswith("$")}
            ctx = SpecCtx(ex, old=fpre, cur=s, names={**pre_names, **s.env, kname: Val(mki(k), int), "_n": Val(mki(n), int)})
            out.append((src, ctx.eval_bool(src)))
        return out

    # 1. invariant holds on entry (k = 0)
    for j, (src, t) in enumerate(inv_terms(st, z3.IntVal(0))):
        ex.oblige(st, t, f"inv.entry.L{ordinal}.{j}@{node.lineno}", "inv", node, f"loop invariant on entry: {src}")
    # 2. arbitrary iteration: havoc what the body may change
    h = st.fork()
    for nm in names:
        old = h.env.get(nm)
        ty = old.ty if old is not None else None
        declared = ex.contract.locals.get(nm) if ex.contract else None
        if declared is not None:
            ty = declared
        h.env[nm] = Val(ex.fresh(f"lv_{nm}", V), ty)
        ex.assume_type(h, h.env[nm])
        if old is None:
            h.bound[nm] = ex.fresh(f"bound_{nm}", B)
    for nm in heaps:
        old_arr = h.arr(nm)
        h.heap[nm] = ex.fresh(f"Hl_{nm}", old_arr.sort())
        if nm in fresh_only:
            # the body only writes this field on objects it allocates itself and on the loop-invariant objects listed:
            # all other older objects keep their values
            o_ = z3.Int(fresh_name("lf!o"))
            excl = [o_ != ix for ix in fresh_only[nm]]
            h.assume(z3.ForAll([o_], z3.Implies(z3.And([o_ < entry_alloc] + excl), h.heap[nm][o_] == old_arr[o_])))
    for nm in ghosts:
        if nm == "$alloc":
            a = ex.fresh("alloc", I)
            h.assume(a >= ex.alloc_term(st))
            h.ghost[nm] = a
        else:
            h.ghost[nm] = ex.fresh(f"gl_{nm}", ex.gh(h, nm).sort())
    k = ex.fresh("k", I)
    it = h.fork()
    it.assume(z3.And(k >= 0, k < n))
    for src, t in inv_terms(it, k):
        it.assume(t)
    bind_target(it, k)
    ex.frames.append([])
    ex.exec_block(node.body, it)
    outs = ex.frames.pop()
    ends = [] if ex.dead(it) else [it]
    breaks = []
    for o in outs:
        if o.kind == "continue":
            ends.append(o.st)
        elif o.kind == "break":
            breaks.append(o.st)
        else:
            ex.frames[-1].append(o)
    for s in ends:
        for j, (src, t) in enumerate(inv_terms(s, k + 1)):
            ex.oblige(s, t, f"inv.step.L{ordinal}.{j}@{node.lineno}", "inv", node, f"loop invariant preserved: {src}")
    # 3. exit: exhausted (k == n) or break
    exh = h.fork()
    for src, t in inv_terms(exh, n):
        exh.assume(t)
    for nm in names:
        if nm in st.env:
            exh.bound.pop(nm, None)
        else:
            exh.bound[nm] = n > 0
    j = join([exh] + breaks)
    ex.become(st, j)


def _target_names(t):
    return {x.id for x in ast.walk(t) if isinstance(x, ast.Name)}


# ------------------------------------------------------------------------------------------- comprehensions
def eval_comprehension(ex, node, st: State, kind):
    """[f(x) for x in xs]  ->  fresh list L with len(L) == len(xs) and L[j] == f(xs[j]) for all j.

    The element expression is evaluated once for a symbolic index j; every fresh constant created while doing
    so (allocated objects, extern results) is skolemised into a function of j, and the list's element array is
    the lambda  j -> value(j).  Facts assumed during the element evaluation become one quantified assumption.
    Heap effects of the element expression are only allowed on objects it allocates itself.
    With a filter (`if`) only bounds are known (len(L) <= len(xs)); uses that need more are out of reach.
    """
    if len(node.generators) != 1:
        raise Unsupported("nested comprehension", node)
    gen = node.generators[0]
    if gen.is_async:
        raise Unsupported("async comprehension", node)
    n, elem, _ = _iter_source(ex, gen.iter, st)
    if ex.dead(st):
        return Val(NONE, NoneType)
    st.assume(n >= 0)
    j = z3.Int(fresh_name("cj"))
    body = st.fork()
    body.assume(z3.And(j >= 0, j < n))
    base_pc = len(body.pc)
    saved_created = ex.created_consts
    ex.created_consts = []
    pre_alloc = ex.alloc_term(st)
    ex.frames.append([])
    conds = []
    try:
        e = elem(j, body)
        ex.assign(body, gen.target, e, node)
        for c in gen.ifs:
            ct, nt, _ = ex.cond(c, body)
            conds.append(ct)
            ex.apply_narrow(body, nt)
            body.assume(ct)
        val = ex.ev(node.elt, body)
        outs = ex.frames[-1]
    finally:
        ex.frames.pop()
        created = ex.created_consts
        ex.created_consts = saved_created
        if saved_created is not None:
            saved_created.extend(created)
    subs = []
    for c in created:
        nm = str(c.decl().name()).split("!")[0]
        f = z3.Function(fresh_name("sk_" + nm), I, c.sort())
        subs.append((c, f(j)))

    def sk(t):
        return z3.substitute(t, subs) if subs else t

    for o in outs:
        if o.kind != "raise":
            raise Unsupported("abrupt exit inside comprehension", node)
        rc = z3.And(o.st.pc[base_pc - 1:]) if len(o.st.pc) >= base_pc else z3.BoolVal(True)
        r = st.fork()
        r.assume(sk(rc))  # for some index j (j is free here = existential)
        ex.push_outcome("raise", r, Val(sk(o.val.t), o.val.ty))
        st.assume(z3.ForAll([j], z3.Not(sk(rc))))
    if ex.dead(body):
        st.assume(n == 0)
        return ex.new_seq(st, list, z3.IntVal(0), z3.K(I, NONE), elem=None)
    facts = body.pc[base_pc:]
    # heap arrays changed by the element expression (only on its own fresh objects)
    changed = {}
    for nm, arr in body.heap.items():
        old = st.heap.get(nm)
        if old is None:
            old = st.heap0.get(nm)
        if old is not None and old.get_id() == arr.get_id():
            continue
        changed[nm] = (old if old is not None else st.arr(nm), arr)
    fresh_ids = [(c, fj) for c, fj in subs if c.sort() == I and str(c.decl().name()).startswith("obj")]
    rng = z3.And(j >= 0, j < n)
    if gen.ifs:
        L = ex.new_seq(st, list, ex.fresh("clen", I), ex.fresh("cel", z3.ArraySort(I, V)), elem=val.ty)
        ln = st.arr("$len")[V.rid(L.t)]
        st.assume(z3.And(ln >= 0, ln <= n))
        if changed:
            raise Unsupported("filtered comprehension with allocation in the element expression", node)
        return L
    if facts:
        st.assume(z3.ForAll([j], z3.Implies(rng, sk(z3.And(facts)))))
    # heap after: old objects unchanged, fresh object j has the contents computed in the body
    o = z3.Int(fresh_name("co"))
    for nm, (old, arr) in changed.items():
        new = ex.fresh(f"Hc_{nm}", arr.sort())
        st.assume(z3.ForAll([o], z3.Implies(o < pre_alloc, new[o] == old[o])))
        for c, fj in fresh_ids:
            st.assume(z3.ForAll([j], z3.Implies(rng, new[fj] == sk(arr[c]))))
        st.heap[nm] = new
    a1 = ex.alloc_term(st)
    ex.bump_alloc(st)
    a2 = ex.alloc_term(st)
    j2 = z3.Int(fresh_name("cj2"))
    for c, fj in fresh_ids:
        st.assume(z3.ForAll([j], z3.Implies(rng, z3.And(fj >= a1, fj < a2))))
        fj2 = z3.substitute(fj, (j, j2))
        st.assume(z3.ForAll([j, j2], z3.Implies(z3.And(rng, j2 >= 0, j2 < n, j != j2), fj != fj2)))
    L = ex.new_seq(st, list, n, z3.Lambda([j], sk(val.t)), elem=val.ty)
    return L


def eval_dictcomp(ex, node, st: State):
    """{k: f(v) for k, v in d.items()}  ->  fresh dict with the same keys in the same order and d2[k] == f(d[k]).

    Only this shape is modelled (key expression is the key variable itself); anything else is out of reach.  The value
    expression is evaluated once for a symbolic key; constants it creates are skolemised into functions of the key."""
    if len(node.generators) != 1 or node.generators[0].ifs or node.generators[0].is_async:
        raise Unsupported("dict comprehension shape", node)
    gen = node.generators[0]
    tgt = gen.target
    it = gen.iter
    if not (isinstance(tgt, ast.Tuple) and len(tgt.elts) == 2 and all(isinstance(e, ast.Name) for e in tgt.elts)
            and isinstance(it, ast.Call) and isinstance(it.func, ast.Attribute) and it.func.attr == "items" and not it.args
            and isinstance(node.key, ast.Name) and node.key.id == tgt.elts[0].id):
        raise Unsupported("dict comprehension shape (only {k: f(v) for k, v in d.items()})", node)
    d = ex.ev(it.func.value, st)
    if not isinstance(T.strip_opt(d.ty), DictT):
        raise Unsupported("dict comprehension over a non-dict", node)
    doid = ex.as_ref(st, d, node)
    keys = ex.keys_of(st, d, node)
    kvar = z3.Const(fresh_name("dk"), V)
    body = st.fork()
    has_old = st.arr("$dhas")[doid]
    map_old = st.arr("$dmap")[doid]
    body.assume(has_old[kvar])
    base_pc = len(body.pc)
    saved_created = ex.created_consts
    ex.created_consts = []
    ex.frames.append([])
    try:
        kval = Val(kvar, getattr(d.ty, "k", None))
        vval = Val(map_old[kvar], getattr(d.ty, "v", None))
        ex.assume_type(body, kval)
        ex.assume_type(body, vval)
        body.env[tgt.elts[0].id] = kval
        body.env[tgt.elts[1].id] = vval
        val = ex.ev(node.value, body)
        outs = ex.frames[-1]
    finally:
        ex.frames.pop()
        created = ex.created_consts
        ex.created_consts = saved_created
        if saved_created is not None:
            saved_created.extend(created)
    if outs:
        raise Unsupported("dict comprehension whose value expression may raise", node)
    for nm, arr in body.heap.items():
        old = st.heap.get(nm)
        if old is None:
            old = st.heap0.get(nm)
        if old is not None and old.get_id() != arr.get_id():
            raise Unsupported("dict comprehension whose value expression allocates or writes the heap", node)
    subs = []
    for c in created:
        f = z3.Function(fresh_name("skd_" + str(c.decl().name()).split("!")[0]), V, c.sort())
        subs.append((c, f(kvar)))

    def sk(t):
        return z3.substitute(t, subs) if subs else t

    facts = body.pc[base_pc:]
    if facts:
        st.assume(z3.ForAll([kvar], z3.Implies(has_old[kvar], sk(z3.And(facts)))))
    out = ex.new_object(st, dict, DictT(getattr(d.ty, "k", None), val.ty))
    oid = V.rid(out.t)
    st.heap["$dhas"] = z3.Store(st.arr("$dhas"), oid, has_old)
    st.heap["$dmap"] = z3.Store(st.arr("$dmap"), oid, z3.Lambda([kvar], sk(val.t)))
    st.heap["$klen"] = z3.Store(st.arr("$klen"), oid, keys.n)
    st.heap["$kel"] = z3.Store(st.arr("$kel"), oid, keys.arr)
    return out
