"""Per-function verification driver: real source -> AST -> symbolic execution -> obligations."""
from __future__ import annotations

import ast
import hashlib
import importlib
import os
import sys
import time

import z3

from . import types as T
from .exec import Executor, Obligation, Outcome
from .sorts import CLS, I, NONE, V, mkb, mki, mkr
from .spec import SpecCtx
from .state import State, Val, join
from .types import NoneType, Opt
from .world import Contract, Unsupported, World


class FunctionSource:
    def __init__(self, repo_root: str, relpath: str, qualname: str):
        self.relpath = relpath
        self.path = os.path.join(repo_root, relpath)
        self.qualname = qualname
        with open(self.path, "rb") as f:
            raw = f.read()
        self.file_sha256 = hashlib.sha256(raw).hexdigest()
        self.tree = ast.parse(raw.decode("utf-8"), filename=self.path)
        self.node = self._find(self.tree, [p for p in qualname.split(".") if p != "<locals>"])
        seg = ast.get_source_segment(raw.decode("utf-8"), self.node) or ""
        self.sha256 = hashlib.sha256(seg.encode()).hexdigest()
        self.lines = (self.node.lineno, self.node.end_lineno)
        self.modname = relpath[:-3].replace("/", ".")
        if self.modname.endswith(".__init__"):
            self.modname = self.modname[: -len(".__init__")]

    @staticmethod
    def _find(tree, parts):
        cur = tree
        for p in parts:
            found = None
            for n in ast.walk(cur) if False else _direct_defs(cur):
                if getattr(n, "name", None) == p:
                    found = n
                    break
            if found is None:
                raise Unsupported(f"function {'.'.join(parts)} not found in source (missing {p})")
            cur = found
        return cur


def _direct_defs(node):
    """defs directly inside node (searching nested statement blocks but not nested defs)"""
    out = []
    stack = list(ast.iter_child_nodes(node))
    while stack:
        n = stack.pop(0)
        if isinstance(n, (ast.FunctionDef, ast.AsyncFunctionDef, ast.ClassDef)):
            out.append(n)
        elif isinstance(n, (ast.If, ast.For, ast.While, ast.With, ast.Try)):
            stack.extend(ast.iter_child_nodes(n))
    return out


class FunctionResult:
    def __init__(self, contract: Contract, src: FunctionSource | None):
        self.contract = contract
        self.src = src
        self.obligations: list[Obligation] = []
        self.out_of_reach: str | None = None
        self.trusted_used: set[str] = set()
        self.gen_time = 0.0
        self.outcomes = {"return": 0, "raise": 0}
        self.cases = 0


def verify_function(w: World, relpath: str, qualname: str, contract: Contract) -> FunctionResult:
    t0 = time.time()
    try:
        src = FunctionSource(w.repo_root, relpath, qualname)
    except Unsupported as e:
        r = FunctionResult(contract, None)
        r.out_of_reach = str(e)
        return r
    res = FunctionResult(contract, src)
    try:
        module = importlib.import_module(src.modname)
        mfile = os.path.realpath(getattr(module, "__file__", ""))
        if not mfile.startswith(os.path.realpath(w.repo_root) + os.sep):
            raise RuntimeError(f"module {src.modname} imported from {mfile}, not from {w.repo_root}")
        cases = contract.cases(w) if callable(contract.cases) else contract.cases
        if cases:
            # finite case split over a parameter domain: one symbolic run per case, obligations tagged by case
            res.cases = len(cases)
            for ci, case in enumerate(cases):
                ex = Executor(w, module, src.node, qualname, contract, relpath)
                ex.closure_globals = _closure_globals(w, module, src)
                _run(ex, w, src, contract, res, case=case)
                lab = case.get("label", str(ci))
                for o in ex.obligations:
                    o.id = f"{o.id}[{lab}]"
                    o.note = f"[case {lab}] {o.note}"
                res.obligations.extend(ex.obligations)
                res.trusted_used |= ex.trusted_used
        else:
            ex = Executor(w, module, src.node, qualname, contract, relpath)
            ex.closure_globals = _closure_globals(w, module, src)
            _run(ex, w, src, contract, res)
            res.obligations = ex.obligations
            res.trusted_used = ex.trusted_used
            for fc in contract.focus:
                flt = getattr(w, "clause_filter", None)
                if flt is not None and not any(flt(pfx) for pfx in fc["only"]):
                    continue  # none of this focus run's clauses is wanted by the caller (a check of another property)
                ex2 = Executor(w, module, src.node, qualname, contract, relpath)
                ex2.closure_globals = _closure_globals(w, module, src)
                ex2.prune = True
                res2 = FunctionResult(contract, src)
                _run(ex2, w, src, contract, res2, focus=fc)
                for o in ex2.obligations:
                    o.id = f"{o.id}[{fc['label']}]"
                    o.note = f"[under: {fc['assume']}] {o.note}"
                res.obligations.extend(ex2.obligations)
                res.trusted_used |= ex2.trusted_used
        if w.axioms:
            for o in res.obligations:
                o.pc = list(w.axioms) + list(o.pc)
    except Unsupported as e:
        ln = getattr(e.node, "lineno", None)
        res.out_of_reach = f"{e}" + (f" at {relpath}:{ln}" if ln else "")
    res.gen_time = time.time() - t0
    return res


def init_state(ex: Executor, contract: Contract, fn_node, case=None) -> tuple[State, dict]:
    st = State()
    st.ghost["$alloc"] = z3.Int("alloc0")
    st.assume(z3.Int("alloc0") >= 0)
    for gname, gsort in ex.w.ghost_sorts.items():
        if gname.endswith("_n") and gsort == I:
            st.assume(z3.Const(f"G0_{gname}", gsort) >= 0)  # ghost counters / log lengths start non-negative
    bind = {}
    a = fn_node.args
    names = [x.arg for x in a.posonlyargs + a.args + a.kwonlyargs]
    for nm in names:
        spec = contract.params.get(nm)
        hint = Executor.param_hint(spec) if spec is not None else None
        if case is not None and nm in case.get("bind", {}):
            v = ex.w.const(case["bind"][nm])
        else:
            v = Val(z3.Const(f"p_{nm}", V), hint)
        ex.assume_type(st, v)
        ex.assume_allocated(st, v.t)
        st.env[nm] = v
        bind[nm] = v
    if a.vararg:
        v = ex.new_seq(st, tuple, z3.Int("p_varargs_n"), z3.Const("p_varargs", z3.ArraySort(I, V)))
        st.env[a.vararg.arg] = v
    if a.kwarg:
        v = ex.new_object(st, dict, T.DictT(str, None))
        v.is_own_kwargs = True
        st.env[a.kwarg.arg] = v
    return st, bind


def _closure_globals(w, module, src):
    return {}


def _focused(contract, eid):
    for fc in contract.focus:
        if any(eid.startswith(p) for p in fc["only"]):
            return fc
    return None


def _run(ex: Executor, w: World, src: FunctionSource, contract: Contract, res: FunctionResult, case=None, focus=None):
    fn = src.node
    st, bind = init_state(ex, contract, fn, case)
    if case is not None:
        for k, v in case.get("names", {}).items():
            bind[k] = w.const(v)
    for r in contract.requires:
        # the precondition talks about the entry state (old == current); facts recorded while evaluating it stay
        ctx = SpecCtx(ex, old=st, cur=st, names=dict(bind))
        st.assume(ctx.eval_bool(r))
    if focus is not None:
        ctx = SpecCtx(ex, old=st, cur=st, names=dict(bind))
        st.assume(ctx.eval_bool(focus["assume"]))
    pre = st.fork()
    ex.pre_state = pre
    split_terms = []
    for sp in getattr(contract, "split_on", ()):
        ctx = SpecCtx(ex, old=pre, cur=pre, names=dict(bind))
        split_terms.append(ctx.eval_bool(sp))
    ex.frames.append([])
    ex.exec_block(fn.body, st)
    if focus is not None:
        # a focus run proves its own postconditions only (everything else belongs to the general run); obligations raised
        # while executing the body (callee preconditions, safety) are the general run's as well
        ex.obligations = []
    outs = ex.frames.pop()
    finals: list[Outcome] = []
    if not ex.dead(st):
        finals.append(Outcome("return", st, Val(NONE, NoneType)))
    for o in outs:
        if o.kind in ("return", "raise"):
            finals.append(o)
        else:
            raise Unsupported(f"{o.kind} outside loop")
    if not os.environ.get("PYVC_SPLIT_OUTCOMES") and contract.join_outcomes and len(finals) > 2:
        # one obligation set per kind of exit: all returns joined, all raises joined (PYVC_SPLIT_OUTCOMES=1 keeps the sites apart)
        merged = []
        groups = [[o for o in finals if o.kind == "return"]]
        # raise sites are grouped by the (static) class of the exception they raise
        by_cls = {}
        for o in finals:
            if o.kind == "raise":
                by_cls.setdefault(getattr(o.val.ty, "__qualname__", repr(o.val.ty)), []).append(o)
        groups.extend(by_cls.values())
        for group in groups:
            if not group:
                continue
            kind = group[0].kind
            if len(group) <= 1:
                merged.extend(group)
                continue
            for o in group:
                o.st.env["$out"] = o.val if o.val is not None else Val(NONE, NoneType)
                o.st.bound.pop("$out", None)
            j = join([o.st for o in group])
            merged.append(Outcome(kind, j, j.env["$out"], None))
        res.outcomes_split = {"return": sum(1 for o in finals if o.kind == "return"), "raise": sum(1 for o in finals if o.kind == "raise")}
        finals = merged
    tag = contract.name.split(".")[-1]
    raises = contract.raises
    if hasattr(res, "outcomes_split"):
        res.outcomes = dict(res.outcomes_split)
    else:
        for o in finals:
            res.outcomes[o.kind] += 1
    for idx, o in enumerate(finals):
        s = o.st
        names = dict(bind)
        if o.kind == "return":
            rv = o.val if o.val is not None else Val(NONE, NoneType)
            names["result"] = rv
            if focus is None and contract.result is not None and repr(contract.result) != repr(rv.ty):
                ex.oblige(s, ex.type_pred(rv.t, contract.result), f"post.result_type.{idx}", "post", fn, f"result has type {T.tname(contract.result)}")
            # postconditions are proved in order; an earlier one may be used as a lemma for the later ones
            # (recorded in .depends: a dependent verdict only counts if its lemmas are discharged)
            s_acc = s.fork()
            deps = []
            for eid, es in contract.ensures.items():
                fc = _focused(contract, eid)
                if focus is not None:
                    if fc is not focus:
                        continue
                    ctx = SpecCtx(ex, old=pre, cur=s, names=names)
                    ex.oblige(s, ctx.eval_bool(es), f"{eid}.r{idx}", "post", fn, es)
                    continue
                if fc is not None:
                    # general run: the part of the entry states the focus run does not cover; not used as a lemma here
                    s_out = s.fork()
                    ctxa = SpecCtx(ex, old=pre, cur=pre, names=dict(bind))
                    s_out.assume(z3.Not(ctxa.eval_bool(fc["assume"])))
                    ctx = SpecCtx(ex, old=pre, cur=s_out, names=names)
                    ex.oblige(s_out, ctx.eval_bool(es), f"{eid}.outside.r{idx}", "post", fn, f"[when not: {fc['assume']}] {es}")
                    continue
                ctx = SpecCtx(ex, old=pre, cur=s_acc, names=names)
                g = ctx.eval_bool(es)
                n_before = len(ex.obligations)
                ex.oblige(s_acc, g, f"{eid}.r{idx}", "post", fn, es)
                if len(ex.obligations) > n_before:
                    ex.obligations[-1].depends = list(deps)
                    deps.append(ex.obligations[-1].id)
                s_acc.assume(g)
            if focus is not None:
                continue
            for ec, spec in raises.items():
                when = spec.get("when")
                if when is not None and spec.get("iff", True):
                    ctx = SpecCtx(ex, old=pre, cur=s, names=dict(bind))
                    ex.oblige(s, z3.Not(ctx.eval_bool(when)), f"raises.{ec.__name__}.must.r{idx}", "post", fn, f"must raise {ec.__name__} when: {when}")
            _frame(ex, contract, pre, s, bind, f"r{idx}", fn)
        else:
            if focus is not None:
                continue
            exc = o.val
            names["exc"] = exc
            allowed = []
            for ec, spec in raises.items():
                when = spec.get("when")
                ctx = SpecCtx(ex, old=pre, cur=s, names=dict(bind))
                isa = ex.isinstance_term(s, exc, (ec,))
                cnd = isa if when is None else z3.And(isa, ctx.eval_bool(when))
                allowed.append(cnd)
            for ec in contract.may_raise:
                allowed.append(ex.isinstance_term(s, exc, (ec,)))
            site = getattr(o.node, "lineno", None)
            ety = getattr(exc.ty, "__name__", str(exc.ty))
            ex.oblige(s, z3.Or(allowed) if allowed else z3.BoolVal(False), f"raises.allowed.x{idx}", "post", o.node if o.node is not None else fn, f"only the declared exceptions, under their conditions (here: {ety} raised at line {site})")
            for ec, spec in raises.items():
                if isinstance(exc.ty, type) and not issubclass(exc.ty, ec) and not issubclass(ec, exc.ty):
                    continue  # statically a different exception class
                isa = ex.isinstance_term(s, exc, (ec,))
                s2 = s.fork()
                s2.assume(isa)
                for eid, es in (spec.get("ensures") or {}).items():
                    ctx = SpecCtx(ex, old=pre, cur=s2, names=names)
                    ex.oblige(s2, ctx.eval_bool(es), f"{eid}.x{idx}", "post", fn, es)
                if spec.get("frame", True):
                    _frame(ex, contract, pre, s2, bind, f"x{idx}.{ec.__name__}", fn, spec.get("modifies", None))
    if split_terms:
        for ob in ex.obligations:
            ob.splits = split_terms
    # canary: 'False' on every final state must be refuted (some path is feasible)
    alive = [o.st for o in finals]
    if alive:
        ob = Obligation(f"canary.{tag}", "canary", [], z3.Not(z3.Or([z3.And(s.pc) if s.pc else z3.BoolVal(True) for s in alive])), src.relpath, "vacuity guard: must be refuted")
        ob.expect_refuted = True
        ex.obligations.append(ob)


def _frame(ex: Executor, contract: Contract, pre: State, s: State, bind, tag, node, modifies=None):
    """everything not listed in modifies is unchanged on objects that existed before the call"""
    if modifies is None:
        modifies = contract.modifies
    if contract.locals.get("$noframe"):
        return
    any_field = {m[2:] for m in modifies if m.startswith("*.")}
    per_obj: dict[str, list] = {}
    ghosts_ok = {m[len("$ghost:"):] for m in modifies if m.startswith("$ghost:")}
    for m in modifies:
        if m.startswith("*.") or m.startswith("$ghost:"):
            continue
        objexpr, f = m.rsplit(".", 1)
        ctx = SpecCtx(ex, old=pre, cur=pre, names=dict(bind))
        per_obj.setdefault(f, []).append(V.rid(ctx.eval(objexpr).t))
    a0 = ex.alloc_term(pre)
    goals = []
    fields = []
    for f, arr in s.heap.items():
        if f in any_field:
            continue
        old = pre.heap.get(f)
        if old is None:
            old = pre.heap0.get(f)
        if old is None or old.get_id() == arr.get_id():
            continue
        o = z3.Int(f"fr!{f}!{tag}")
        excl = [o != x for x in per_obj.get(f, [])]
        goal = z3.ForAll([o], z3.Implies(z3.And([o < a0] + excl), arr[o] == old[o]))
        goals.append(goal)
        fields.append(f)
    for g, term in s.ghost.items():
        if g in ("$alloc", "$treever") or g in ghosts_ok:
            continue  # ($treever only ever over-approximates 'some dict may have changed')
        old = pre.ghost.get(g)
        if old is None:
            old = z3.Const(f"G0_{g}", term.sort())
        if old.get_id() == term.get_id():
            continue
        goals.append(term == old)
        fields.append("ghost " + g)
    if goals:
        import os

        if os.environ.get("PYVC_FRAME_SPLIT"):
            for f, g_ in zip(fields, goals):
                ex.oblige(s, g_, f"frame.{f.replace(' ', '.')}.{tag}", "frame", node, f"only {modifies} may change: {f} of pre-existing objects unchanged")
        else:
            ex.oblige(s, z3.And(goals), f"frame.{tag}", "frame", node, f"only {modifies} may change; unchanged on pre-existing objects: {', '.join(fields)}")
