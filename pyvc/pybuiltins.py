"""Models of Python builtins and builtin-type methods (exact semantics, not assumptions, unless noted)."""
from __future__ import annotations

import builtins
import typing

import z3

from . import types as T
from .sorts import B, CLS, I, LOWER, NONE, S, STR_OF, UPPER, V, mkb, mki, mkr, mks
from .state import SeqView, Val, arr_lit, arr_slice, fresh_name
from .types import DictT, ListT, NoneType, Opt, SetT, TupleT
from .world import Unsupported

TRUE = z3.BoolVal(True)
FALSE = z3.BoolVal(False)


def install(w):
    H = w.handlers

    def reg(key):
        def deco(f):
            H[key] = f
            return f

        return deco

    # ---------------------------------------------------------------- free functions
    @reg(builtins.len)
    def _len(ex, st, args, kw, node):
        (x,) = args
        ty = T.strip_opt(x.ty)
        if ty is str:
            return Val(mki(z3.Length(V.sval(x.t))), int)
        if isinstance(ty, (ListT, TupleT)) or ty in (list, tuple):
            return Val(mki(ex.seq_of(st, x, node).n), int)
        if isinstance(ty, (DictT, SetT)):
            return Val(mki(ex.keys_of(st, x, node).n), int)
        if isinstance(ty, type):
            for k in ty.__mro__:
                h = H.get(f"{k.__module__}.{k.__qualname__}.__len__")
                if h:
                    return h(ex, st, [x], {}, node)
        raise Unsupported(f"len of {T.tname(x.ty)}", node)

    @reg(builtins.isinstance)
    def _isinstance(ex, st, args, kw, node):
        v, ctv = args
        return Val(mkb(ex.isinstance_term(st, v, ex._classes_of(ctv, node))), bool)

    @reg(builtins.min)
    def _min(ex, st, args, kw, node):
        if len(args) != 2:
            raise Unsupported("min arity", node)
        a, b = (ex.as_int(st, x, node) for x in args)
        return Val(mki(z3.If(b < a, b, a)), int)

    @reg(builtins.max)
    def _max(ex, st, args, kw, node):
        if len(args) != 2:
            raise Unsupported("max arity", node)
        a, b = (ex.as_int(st, x, node) for x in args)
        return Val(mki(z3.If(b > a, b, a)), int)

    @reg(builtins.str)
    def _str(ex, st, args, kw, node):
        if not args:
            return w.const("")
        (x,) = args
        if isinstance(x.ty, type) and issubclass(x.ty, BaseException):
            # str(exception) is its message (kept in $exc_str by the model of the raising call)
            return Val(st.arr("$exc_str")[ex.as_ref(st, x, node)], str)
        return Val(mks(ex.str_of(st, x, node)), str)

    @reg(builtins.bool)
    def _bool(ex, st, args, kw, node):
        (x,) = args
        return Val(mkb(ex.truthy(st, x)), bool)

    @reg(builtins.int)
    def _int(ex, st, args, kw, node):
        (x,) = args
        if x.ty in (int, bool):
            return Val(mki(ex.as_int(st, x, node)), int)
        if x.ty is str:
            s = V.sval(x.t)
            # int(str): ValueError unless a decimal numeral (sign / whitespace / underscores are treated as failure: over-approximates raising)
            n = z3.StrToInt(s)
            ok = z3.And(n >= 0, z3.Length(s) > 0, z3.IntToStr(n) == s)
            loose = ex.fresh("int_parse_ok", B)  # ' 12', '+3', '1_0', '-5', '007' also parse; value then unspecified
            val = ex.fresh("int_parse_val", I)
            ex.raise_if(st, z3.And(z3.Not(ok), z3.Not(loose)), ValueError, node)
            return Val(mki(z3.If(ok, n, val)), int)
        raise Unsupported(f"int() of {T.tname(x.ty)}", node)

    @reg(builtins.tuple)
    def _tuple(ex, st, args, kw, node):
        if not args:
            return ex.new_seq_lit(st, tuple, [], items=[])
        (x,) = args
        return _to_seq(ex, st, x, node, tuple)

    @reg(builtins.list)
    def _list(ex, st, args, kw, node):
        if not args:
            return ex.new_seq_lit(st, list, [])
        (x,) = args
        return _to_seq(ex, st, x, node, list)

    def _to_seq(ex, st, x, node, kind):
        if isinstance(x.py, tuple) and x.py and x.py[0] == "genexp":
            from .loops import eval_comprehension

            L = eval_comprehension(ex, x.py[1], st, "gen")
            if kind is list:
                return L
            v = ex.seq_of(st, L, node)
            return ex.new_seq(st, tuple, v.n, v.arr, elem=v.elem)
        if isinstance(x.py, tuple) and x.py and x.py[0] == "dict.values":
            d = x.py[1]
            keys = ex.keys_of(st, d, node)
            dm = st.arr("$dmap")[V.rid(d.t)]
            i = z3.Int(fresh_name("dv!i"))
            return ex.new_seq(st, kind, keys.n, z3.Lambda([i], dm[keys.at(i)]), elem=getattr(d.ty, "v", None))
        ty = T.strip_opt(x.ty)
        if isinstance(ty, (ListT, TupleT)):
            v = ex.seq_of(st, x, node)
            out = ex.new_seq(st, kind, v.n, v.arr, elem=v.elem)
            out.parts = x.parts
            return out
        raise Unsupported(f"{kind.__name__}() of {T.tname(x.ty)}", node)

    @reg(builtins.print)
    def _print(ex, st, args, kw, node):
        return Val(NONE, NoneType)

    @reg(typing.cast)
    def _cast(ex, st, args, kw, node):
        return args[1]

    @reg(builtins.any)
    def _any(ex, st, args, kw, node):
        return _anyall(ex, st, args, node, True)

    @reg(builtins.all)
    def _all(ex, st, args, kw, node):
        return _anyall(ex, st, args, node, False)

    def _anyall(ex, st, args, node, is_any):
        (x,) = args
        if isinstance(x.py, tuple) and x.py and x.py[0] == "genexp":
            from .loops import eval_comprehension

            x = eval_comprehension(ex, x.py[1], st, "gen")
        sq = ex.seq_of(st, x, node)
        j = z3.Int(fresh_name("aa!j"))
        elem = Val(sq.at(j), sq.elem)
        t = ex.truthy(st, elem)
        rng = z3.And(j >= 0, j < sq.n)
        q = z3.Exists([j], z3.And(rng, t)) if is_any else z3.ForAll([j], z3.Implies(rng, t))
        return Val(mkb(q), bool)

    @reg(builtins.map)
    def _map(ex, st, args, kw, node):
        f, xs = args
        if f.py is not builtins.str:
            raise Unsupported("map() with a function other than str", node)
        sq = ex.seq_of(st, xs, node)
        i = z3.Int(fresh_name("map!i"))
        return ex.new_seq(st, list, sq.n, z3.Lambda([i], mks(ex.str_of(st, Val(sq.at(i), sq.elem), node))), elem=str)

    @reg(builtins.sorted)
    def _sorted(ex, st, args, kw, node):
        raise Unsupported("sorted", node)

    @reg(builtins.type)
    def _type(ex, st, args, kw, node):
        raise Unsupported("type()", node)

    # ---------------------------------------------------------------- str methods
    @reg("str.upper")
    def _upper(ex, st, args, kw, node):
        (s_,) = args
        return Val(mks(upper_of(V.sval(s_.t))), str)

    @reg("str.lower")
    def _lower(ex, st, args, kw, node):
        (s_,) = args
        return Val(mks(lower_of(V.sval(s_.t))), str)

    @reg("str.startswith")
    def _startswith(ex, st, args, kw, node):
        s_, p = args
        return Val(mkb(z3.PrefixOf(ex.as_str(st, p, node), V.sval(s_.t))), bool)

    @reg("str.endswith")
    def _endswith(ex, st, args, kw, node):
        s_, p = args
        return Val(mkb(z3.SuffixOf(ex.as_str(st, p, node), V.sval(s_.t))), bool)

    @reg("str.strip")
    def _strip(ex, st, args, kw, node):
        # assumed (A-PY): result is a substring without leading/trailing whitespace; equal to input when it has none
        s_ = args[0]
        out = ex.fresh("strip", S)
        x = V.sval(s_.t)
        st.assume(z3.Contains(x, out))
        st.assume(z3.Implies(z3.And(z3.Not(z3.PrefixOf(z3.StringVal(" "), x)), z3.Not(z3.SuffixOf(z3.StringVal(" "), x)), z3.Not(z3.Contains(x, z3.StringVal("\n"))), z3.Not(z3.Contains(x, z3.StringVal("\t")))), out == x))
        return Val(mks(out), str)

    @reg("str.replace")
    def _replace(ex, st, args, kw, node):
        s_, a, b = args
        return Val(mks(ex.fresh("replace_all", S)), str)  # opaque (A-PY): replace-all is outside both solvers' reach

    @reg("str.split")
    def _split(ex, st, args, kw, node):
        s_ = args[0]
        if len(args) != 2:
            raise Unsupported("str.split() without separator", node)
        sep = ex.as_str(st, args[1], node)
        x = V.sval(s_.t)
        n = ex.fresh("split_n", I)
        arr = ex.fresh("split_el", z3.ArraySort(I, V))
        out = ex.new_seq(st, list, n, arr, elem=str)
        # A-PY facts used: at least one piece; pieces are strings without the separator; first piece is the text
        # before the first separator; exactly one piece iff the separator does not occur
        st.assume(n >= 1)
        j = z3.Int(fresh_name("sp!j"))
        st.assume(z3.ForAll([j], z3.Implies(z3.And(j >= 0, j < n), z3.And(V.is_s(arr[j]), z3.Not(z3.Contains(V.sval(arr[j]), sep))))))
        idx = z3.IndexOf(x, sep, 0)
        st.assume(z3.And(V.is_s(arr[0]), V.sval(arr[0]) == z3.If(idx < 0, x, z3.SubString(x, 0, idx))))
        st.assume((n == 1) == z3.Not(z3.Contains(x, sep)))
        st.assume(z3.Implies(n == 2, x == z3.Concat(V.sval(arr[0]), sep, V.sval(arr[1]))))
        return out

    @reg("str.join")
    def _join(ex, st, args, kw, node):
        sep, xs = args
        if isinstance(xs.py, tuple) and xs.py and xs.py[0] == "genexp":
            from .loops import eval_comprehension

            xs = eval_comprehension(ex, xs.py[1], st, "gen")
        if xs.parts is not None and all(isinstance(p, Val) for p in xs.parts) and isinstance(xs.ty, (ListT, TupleT)):
            terms = []
            for i, p in enumerate(xs.parts):
                if i:
                    terms.append(V.sval(sep.t))
                terms.append(ex.as_str(st, p, node))
            t = z3.Concat(terms) if len(terms) > 1 else (terms[0] if terms else z3.StringVal(""))
            return Val(mks(t), str)
        sq = ex.seq_of(st, xs, node)
        out = JOIN(V.sval(sep.t), sq.n, sq.arr)
        # ground facts for short sequences
        st.assume(z3.Implies(sq.n == 0, out == z3.StringVal("")))
        st.assume(z3.Implies(sq.n == 1, out == V.sval(sq.at(0))))
        st.assume(z3.Implies(sq.n == 2, out == z3.Concat(V.sval(sq.at(0)), V.sval(sep.t), V.sval(sq.at(1)))))
        return Val(mks(out), str)

    @reg("str.format")
    def _format(ex, st, args, kw, node):
        return Val(mks(ex.fresh("format", S)), str)

    @reg("str.isdigit")
    def _isdigit(ex, st, args, kw, node):
        return Val(mkb(ex.fresh("isdigit", B)), bool)

    # ---------------------------------------------------------------- list / dict methods
    @reg("list.append")
    def _append(ex, st, args, kw, node):
        xs, v = args
        oid = ex.as_ref(st, xs, node)
        ln, el = st.arr("$len"), st.arr("$el")
        st.heap["$el"] = z3.Store(el, oid, z3.Store(el[oid], ln[oid], v.t))
        st.heap["$len"] = z3.Store(ln, oid, ln[oid] + 1)
        return Val(NONE, NoneType)

    @reg("list.insert")
    def _insert(ex, st, args, kw, node):
        xs, i, v = args
        ci = z3.simplify(ex.as_int(st, i, node))
        if not (z3.is_int_value(ci) and ci.as_long() == 0):
            raise Unsupported("list.insert at non-zero index", node)
        oid = ex.as_ref(st, xs, node)
        ln, el = st.arr("$len"), st.arr("$el")
        i = z3.Int(fresh_name("ins!i"))
        st.heap["$el"] = z3.Store(el, oid, z3.Lambda([i], z3.If(i == 0, v.t, el[oid][i - 1])))
        st.heap["$len"] = z3.Store(ln, oid, ln[oid] + 1)
        return Val(NONE, NoneType)

    @reg("dict.get")
    def _dget(ex, st, args, kw, node):
        d, k = args[0], args[1]
        default = args[2] if len(args) > 2 else Val(NONE, NoneType)
        oid = ex.as_ref(st, d, node)
        has = st.arr("$dhas")[oid][k.t]
        vh = getattr(d.ty, "v", None)
        v = Val(z3.If(has, st.arr("$dmap")[oid][k.t], default.t), T.join_types([vh, default.ty]) if vh is not None else None)
        if vh is not None:
            st.assume(z3.Implies(has, ex.type_pred(st.arr("$dmap")[oid][k.t], vh)))
        ex.assume_allocated(st, v.t)
        return v

    @reg("dict.pop")
    def _dpop(ex, st, args, kw, node):
        d, k = args[0], args[1]
        oid = ex.as_ref(st, d, node)
        has = st.arr("$dhas")
        present = has[oid][k.t]
        if len(args) > 2:
            raise Unsupported("dict.pop with default", node)
        ex.raise_if(st, z3.Not(present), KeyError, node)
        ex.bump_treever(st)
        v = Val(st.arr("$dmap")[oid][k.t], getattr(d.ty, "v", None))
        st.heap["$dhas"] = z3.Store(has, oid, z3.Store(has[oid], k.t, FALSE))
        kl, ke = st.arr("$klen"), st.arr("$kel")
        st.heap["$klen"] = z3.Store(kl, oid, kl[oid] - 1)
        st.heap["$kel"] = z3.Store(ke, oid, ex.fresh("keys_after_pop", z3.ArraySort(I, V)))  # order of the rest: unspecified here
        return v

    @reg("dict.items")
    def _ditems(ex, st, args, kw, node):
        return Val(NONE, None, py=("dict.items", args[0]))

    @reg("dict.values")
    def _dvalues(ex, st, args, kw, node):
        return Val(NONE, None, py=("dict.values", args[0]))

    @reg("dict.keys")
    def _dkeys(ex, st, args, kw, node):
        d = args[0]
        k = ex.keys_of(st, d, node)
        return ex.new_seq(st, list, k.n, k.arr, elem=getattr(d.ty, "k", None))


JOIN = z3.Function("py_join", S, I, z3.ArraySort(I, V), S)

_upper_facts_done = set()


def upper_of(s):
    """str.upper as an uninterpreted function; literals are evaluated exactly"""
    ss = z3.simplify(s)
    if z3.is_string_value(ss):
        return z3.StringVal(ss.as_string().upper())
    if z3.is_app(s) and s.decl().name() == "py_upper":
        return s  # upper is idempotent
    return UPPER(s)


def lower_of(s):
    ss = z3.simplify(s)
    if z3.is_string_value(ss):
        return z3.StringVal(ss.as_string().lower())
    return LOWER(s)
