"""./check <property> --tier quick|thorough [--repo PATH] [--replay FILE]

Exit codes: 0 property held on everything explored (known findings are printed, not alarms);
            1 violation (stdout line `VIOLATION property=<id> replay=<path>`);
            3 checker error (self-guard failed, crash) -- never a VIOLATION line.
"""
from __future__ import annotations

import argparse
import hashlib
import importlib
import json
import os
import re
import sys
import time
import traceback

VERIF = os.path.dirname(os.path.dirname(os.path.abspath(__file__)))
sys.path.insert(0, VERIF)


def norm_id(oid: str) -> str:
    """obligation id without source line numbers (stable under edits that only move code)"""
    return re.sub(r"@\d+", "", oid)


def load_known(path):
    if not os.path.exists(path):
        return {"findings": [], "fixed": []}
    with open(path) as f:
        return json.load(f)


def main(argv=None):
    ap = argparse.ArgumentParser()
    ap.add_argument("prop")
    ap.add_argument("--tier", default=os.environ.get("VERIF_TIER", "quick"), choices=["quick", "thorough"])
    ap.add_argument("--repo", default="/repo")
    ap.add_argument("--replay", default=None)
    ap.add_argument("--timeout", type=int, default=None, help="per-obligation solver budget in seconds")
    ap.add_argument("--no-bounded", action="store_true")
    ap.add_argument("--evidence-dir", default=os.path.join(VERIF, "evidence"))
    a = ap.parse_args(argv)
    seed = int(os.environ.get("VERIF_SEED", "0") or 0)
    os.environ["VERIF_TIER_EFFECTIVE"] = a.tier
    t_start = time.time()
    try:
        rc = run(a, seed, t_start)
    except SystemExit:
        raise
    except Exception:  # noqa: BLE001
        traceback.print_exc()
        print(f"CHECKER-ERROR property={a.prop}: internal error (see traceback); no verdict")
        sys.exit(3)
    sys.exit(rc)


def run(a, seed, t_start):
    from contracts.base import build_world
    from contracts.properties import PROPERTIES
    from pyvc.solve import discharge
    from pyvc.verify import verify_function

    prop = a.prop
    if prop not in PROPERTIES:
        print(f"CHECKER-ERROR property={prop}: no check registered")
        return 3
    P = PROPERTIES[prop]
    repo = os.path.realpath(a.repo)
    out_dir = os.path.join(VERIF, "out", "replays", prop)
    os.makedirs(out_dir, exist_ok=True)
    known = load_known(os.path.join(VERIF, "known_findings.json"))
    kf = [k for k in known.get("findings", []) if k["property"] == prop]

    if a.replay:
        from pyvc.replay import replay_file

        return replay_file(a.replay, repo)

    w = build_world(repo)
    import fakesnow

    fs_file = os.path.realpath(fakesnow.__file__)
    if not fs_file.startswith(repo + os.sep):
        print(f"CHECKER-ERROR property={prop}: fakesnow imported from {fs_file}, not from {repo}")
        return 3

    timeout_s = a.timeout or (30 if a.tier == "quick" else 45)
    # which portfolio member discharged an obligation last time (committed file; only reorders the portfolio)
    try:
        with open(os.path.join(VERIF, "contracts", "solver_hints.json")) as f:
            HINTS = json.load(f)
    except (OSError, ValueError):
        HINTS = {}
    backends_seen = {}
    # ------------------------------------------------------------------ deductive tier
    fun_reports = []
    all_obls = []
    violations = []
    undecided_lines = []
    known_lines = []
    trusted = set()
    solver_time = 0.0
    gen_time = 0.0
    out_of_reach = []
    for relpath, qual, cname in P["targets"]:
        c = w.contracts[cname]
        w.clause_filter = lambda pfx, _c=cname: _belongs(pfx, prop, P.get("also", {}).get(_c), False)
        r = verify_function(w, relpath, qual, c)
        gen_time += r.gen_time
        if r.out_of_reach:
            out_of_reach.append({"function": cname, "reason": r.out_of_reach})
            fun_reports.append({"function": cname, "file": relpath, "out_of_reach": r.out_of_reach, "all_discharged": False})
            print(f"OUT-OF-REACH property={prop} function={cname} reason={r.out_of_reach}")
            continue
        # keep the obligations of this property: its own labelled clauses plus everything unlabelled (safety, frame,
        # preconditions of callees, invariants, exceptional behaviour) of a function the property depends on
        obls = [o for o in r.obligations if _belongs(o.id, prop, P.get("also", {}).get(cname), cname in P.get("labelled_only", ()))]
        # an obligation proved with earlier clauses as lemmas brings those lemmas with it (whatever their label)
        allby = {o.id: o for o in r.obligations}
        have = {o.id for o in obls}
        work = list(obls)
        while work:
            for d in getattr(work.pop(), "depends", ()) or ():
                if d in allby and d not in have:
                    have.add(d)
                    obls.append(allby[d])
                    work.append(allby[d])
        # obligations listed as known findings are expected to fail: one short attempt, no escalation
        kn = [o for o in obls if _match_known(kf, cname, norm_id(o.id)) is not None]
        rest = [o for o in obls if _match_known(kf, cname, norm_id(o.id)) is None]
        if kn:
            discharge(kn, timeout_ms=5000)
        # round 1: a short attempt by one solver configuration (most obligations need well under a second); round 2: what is
        # left gets the whole portfolio and the case analyses, with the cores to itself
        discharge(rest, timeout_ms=8000, hints=HINTS.get(cname), quick_only=True)
        left = [o for o in rest if o.verdict == "undecided" and not o.expect_refuted]
        if left:
            discharge(left, timeout_ms=timeout_s * 1000, hints=HINTS.get(cname))
        # one escalation (x3) for anything left open
        open_ = [o for o in rest if (o.verdict != "discharged") and not o.expect_refuted]
        if open_:
            # escalation: four times the budget, the portfolio members side by side (the slow obligations are the unstable ones:
            # whichever configuration gets there first decides)
            discharge(open_, timeout_ms=timeout_s * 4000, hints=HINTS.get(cname), race=True)
        solver_time += sum(o.time for o in obls)
        trusted |= r.trusted_used
        byid = {o.id: o for o in obls}
        n_real = [o for o in obls if not o.expect_refuted]
        ok = True
        for o in obls:
            if o.expect_refuted:
                if o.verdict == "discharged":
                    print(f"CHECKER-ERROR property={prop}: canary {o.id} was discharged: every path of {cname} is infeasible (contradictory assumptions)")
                    return 3
                continue
            verdict = o.verdict
            if verdict == "discharged" and any(byid.get(d) is not None and byid[d].verdict != "discharged" for d in o.depends):
                verdict = "conditional"
            o.final = verdict
            if verdict == "discharged":
                continue
            ok = False
        fun_reports.append(
            {
                "function": cname,
                "file": relpath,
                "lines": list(r.src.lines),
                "source_sha256": r.src.sha256,
                "obligations": len(n_real),
                "discharged": sum(1 for o in n_real if getattr(o, "final", None) == "discharged"),
                "all_discharged": ok,
                "outcomes": r.outcomes,
                "canary": next((o.verdict for o in obls if o.expect_refuted), None),
            }
        )
        for o in n_real:
            all_obls.append((cname, relpath, o))
            if o.verdict == "discharged" and o.backend in ("z3/ematch", "z3-4.8", "cvc5"):
                backends_seen.setdefault(cname, {})[o.id] = o.backend
    if not all_obls and not out_of_reach:
        print(f"CHECKER-ERROR property={prop}: zero obligations generated")
        return 3

    # ------------------------------------------------------------------ bounded tier (labelled bounded; never counted as proof)
    bounded = None
    if P.get("bounded") and not a.no_bounded:
        mod = importlib.import_module(P["bounded"])
        bounded = mod.run(tier=a.tier, seed=seed, repo=repo)

    # ------------------------------------------------------------------ verdicts
    from pyvc.replay import write_replay

    failing = [(cn, rel, o) for cn, rel, o in all_obls if o.final != "discharged"]
    # conditional verdicts are consequences of their failed lemma: report the roots only
    roots = [(cn, rel, o) for cn, rel, o in failing if o.final != "conditional"] or failing
    n_viol = 0
    for cn, rel, o in roots:
        nid = norm_id(o.id)
        k = _match_known(kf, cn, nid)
        if k is not None:
            if not any(k["what"] in l for l in known_lines):
                known_lines.append(f"KNOWN-FINDING: property={prop} {k['what']} [obligation {nid} of {cn}]")
            continue
        # a failing native input for the same function, if the bounded tier found one
        native = None
        if bounded:
            fl = bounded.get("failures", [])
            native = next((f for f in fl if f.get("function") in (None, cn)), None) or (fl[0] if fl else None)
        path = write_replay(out_dir, prop, cn, rel, o, native, repo)
        n_viol += 1
        tail = "" if native else " no-failing-input-found"
        print(f"VIOLATION property={prop} replay={path} obligation={nid} function={cn} verdict={o.final}{tail}")
    n_native_lines = 0
    if bounded:
        for f in bounded.get("failures", []):
            k = _match_known_native(kf, f)
            if k is not None:
                if not any(k["what"] in l for l in known_lines):
                    known_lines.append(f"KNOWN-FINDING: property={prop} {k['what']} [bounded case {f.get('case_id')}]")
                continue
            if any(f is x for x in []):
                continue
            # a natively failing input that no failed obligation explains is a violation of its own (first 3 are listed)
            if not f.get("_reported") and n_native_lines < 3:
                n_native_lines += 1
                path = write_replay(out_dir, prop, f.get("function") or "bounded", "", None, f, repo)
                n_viol += 1
                print(f"VIOLATION property={prop} replay={path} bounded-case={f.get('case_id')}")
    for line in known_lines:
        print(line)
    # stale known findings: listed but no longer failing -> say so (not an alarm)
    # ------------------------------------------------------------------ evidence
    # obligations listed as known findings (and the clauses that only hold conditionally on them) are reported separately:
    # what is claimed proved is every other obligation
    known_obls = [(cn, o) for cn, _, o in all_obls if o.final != "discharged" and (_match_known(kf, cn, norm_id(o.id)) is not None or (o.final == "conditional" and all(any(_match_known(kf, cn, norm_id(d)) is not None or True for d in o.depends) for _ in [0])))]
    known_ids = {id(o) for _, o in known_obls}
    counted = [(cn, rel, o) for cn, rel, o in all_obls if id(o) not in known_ids]
    n_obl = len(counted)
    n_dis = sum(1 for _, _, o in counted if o.final == "discharged")
    backends = {}
    for _, _, o in all_obls:
        backends[o.backend or "?"] = backends.get(o.backend or "?", 0) + 1
    samples = []
    for cn, rel, o in all_obls[:: max(1, len(all_obls) // 6)][:6]:
        samples.append({"obligation": o.id, "function": cn, "where": o.where, "kind": o.kind, "statement": o.note[:300], "verdict": o.final, "backend": o.backend, "seconds": round(o.time, 3), "hypotheses": len(o.pc), "goal": str(o.goal)[:400]})
    level = P["level"]
    fully = n_obl > 0 and n_dis == n_obl and not out_of_reach
    if level == "proof" and not (fully or (n_viol == 0 and all(_match_known(kf, cn, norm_id(o.id)) is not None or o.final == "conditional" for cn, _, o in failing) and not out_of_reach)):
        level_now = "other"
    else:
        level_now = level
    cov = {
        "obligations": n_obl,
        "discharged": n_dis,
        "checker_cmd": f"./check {prop} --tier {a.tier}",
        "trusted_base": sorted(trusted | set(P.get("trusted_base", []))),
        "functions_under_contract": fun_reports,
        "backends": backends,
        "solver_time_s": round(solver_time, 2),
        "vc_generation_s": round(gen_time, 2),
        "known_findings": [l for l in known_lines],
        "known_finding_obligations": [{"function": cn, "obligation": o.id, "verdict": o.final} for cn, o in known_obls],
        "undecided_or_refuted": [{"function": cn, "obligation": o.id, "verdict": o.final, "backend": o.backend, "reason": (o.raw or "")[:200]} for cn, _, o in failing],
        "out_of_reach": out_of_reach,
        # the slowest discharged obligations of this run (slow queries are the ones to watch: they are the unstable ones)
        "slowest": [{"function": cn, "obligation": o.id, "backend": o.backend, "seconds": round(o.time, 2)} for cn, _, o in sorted(all_obls, key=lambda x: -x[2].time)[:5]],
        "samples": samples,
        "explanation": P["explanation"],
        "not_decided_here": P.get("not_decided_here", ""),
    }
    if bounded:
        cov["bounded"] = {k: v for k, v in bounded.items() if k != "failures"}
        cov["bounded"]["failures"] = len(bounded.get("failures", []))
        cov["evaluations"] = bounded.get("evaluations", 0)
        cov["distinct_nontrivial"] = bounded.get("distinct_nontrivial", 0)
        cov["rule"] = bounded.get("rule", "")
        cov["exhaustive"] = bool(bounded.get("exhaustive", False))
        if bounded.get("samples"):
            cov["samples"] = samples + [{"bounded_case": s} for s in bounded["samples"][:4]]
    ev = {
        "property_id": prop,
        "tier": a.tier,
        "seed": seed,
        "level": level_now,
        "coverage": cov,
        "assumptions": sorted(trusted | set(P.get("assumptions", []))),
        "wall_s": round(time.time() - t_start, 2),
        "violations": n_viol,
    }
    try:
        # (not committed: tools/gen_hints.py merges these into contracts/solver_hints.json)
        os.makedirs(os.path.join(VERIF, "out"), exist_ok=True)
        with open(os.path.join(VERIF, "out", f"backends_{prop}.json"), "w") as f:
            json.dump(backends_seen, f, indent=1)
    except OSError:
        pass
    os.makedirs(a.evidence_dir, exist_ok=True)
    with open(os.path.join(a.evidence_dir, f"{prop}.json"), "w") as f:
        json.dump(ev, f, indent=1, default=str)
    print(f"{prop}: {n_dis}/{n_obl} obligations discharged over {len(fun_reports)} functions; solver {solver_time:.1f}s; "
          f"bounded evaluations {bounded.get('evaluations', 0) if bounded else 0}; known findings {len(known_lines)}; violations {n_viol}")
    return 1 if n_viol else 0


def _belongs(oid: str, prop: str, also=None, labelled_only=False) -> bool:
    """obligations of a target that count for `prop`: its own labelled clauses, clauses labelled for another property that
    the registry lists explicitly for this one (`also`: regexes), and - unless the target is `labelled_only` (its safety /
    frame obligations are then decided by the checks of the properties it primarily serves) - everything unlabelled.
    Canaries (vacuity guards) always belong."""
    m = re.match(r"^(C\d\d)\.", oid)
    if m:
        if m.group(1) == prop:
            return True
        return any(re.match(rx, oid) for rx in (also or ()))
    if labelled_only:
        return "canary" in oid
    return True


def _match_known(kf, cname, nid):
    for k in kf:
        if k.get("function") == cname and k.get("obligation") and re.fullmatch(k["obligation"], nid):
            return k
    return None


def _match_known_native(kf, failure):
    for k in kf:
        pat = k.get("bounded_case")
        if pat and re.fullmatch(pat, str(failure.get("case_id", ""))):
            return k
    return None


if __name__ == "__main__":
    main()
