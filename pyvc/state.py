"""Symbolic state: environment, heap (one array per attribute), path condition; forking and joining."""
from __future__ import annotations

import z3

from .sorts import B, I, V

_fresh_counter = [0]


def fresh_name(prefix: str) -> str:
    _fresh_counter[0] += 1
    return f"{prefix}!{_fresh_counter[0]}"


def fresh_const(prefix: str, sort):
    return z3.Const(fresh_name(prefix), sort)


def heap_sort(name: str):
    if name in ("$len", "$klen"):
        return z3.ArraySort(I, I)
    if name in ("$el", "$kel"):
        return z3.ArraySort(I, z3.ArraySort(I, V))
    if name == "$dmap":
        return z3.ArraySort(I, z3.ArraySort(V, V))
    if name == "$dhas":
        return z3.ArraySort(I, z3.ArraySort(V, B))
    return z3.ArraySort(I, V)


class Val:
    """A Python value during symbolic execution: z3 term of sort V + static hint + optional real object."""

    __slots__ = ("t", "ty", "py", "parts", "is_own_kwargs")

    def __init__(self, t, ty=None, py=None, parts=None):
        self.is_own_kwargs = False
        self.t = t
        self.ty = ty  # static type hint (see types.py) or None
        self.py = py  # the real Python object when this is a global constant (class, function, module ...)
        self.parts = parts  # for strings built from f-strings: list of str | Val

    def __repr__(self):
        return f"Val({self.t}, ty={self.ty})"


class SeqView:
    """a sequence as (length term, element array Int->V); the array is only meaningful on [0, n)"""

    __slots__ = ("n", "arr", "elem")

    def __init__(self, n, arr, elem=None):
        self.n = n
        self.arr = arr
        self.elem = elem

    def at(self, i):
        return z3.Select(self.arr, i)


def arr_lit(terms):
    a = z3.K(I, V.none)
    for k, t in enumerate(terms):
        a = z3.Store(a, z3.IntVal(k), t)
    return a


def arr_slice(view: "SeqView", start):
    i = z3.Int("sl!i")
    return z3.Lambda([i], z3.Select(view.arr, start + i))


def arr_concat(a: "SeqView", b: "SeqView"):
    i = z3.Int("cc!i")
    return z3.Lambda([i], z3.If(i < a.n, z3.Select(a.arr, i), z3.Select(b.arr, i - a.n)))


class State:
    def __init__(self):
        self.env: dict[str, Val] = {}
        self.bound: dict[str, z3.BoolRef] = {}  # condition under which a local is bound (absent = True)
        self.heap: dict[str, z3.ExprRef] = {}
        self.ghost: dict[str, z3.ExprRef] = {}
        self.pc: list[z3.BoolRef] = []
        self.nalloc = 0
        self.heap0: dict[str, z3.ExprRef] = {}  # shared registry of initial arrays (same object across forks)

    def fork(self) -> "State":
        s = State.__new__(State)
        s.env = dict(self.env)
        s.bound = dict(self.bound)
        s.heap = dict(self.heap)
        s.ghost = dict(self.ghost)
        s.pc = list(self.pc)
        s.nalloc = self.nalloc
        s.heap0 = self.heap0
        if "dead" in self.__dict__:
            s.dead = self.dead
        return s

    def arr(self, name: str):
        a = self.heap.get(name)
        if a is None:
            a = self.heap0.get(name)
            if a is None:
                a = z3.Const(f"H0_{name}", heap_sort(name))
                self.heap0[name] = a
            self.heap[name] = a
        return a

    def assume(self, c):
        if z3.is_true(c):
            return
        ids = self.__dict__.get("_pc_ids")
        if ids is None or len(ids) > len(self.pc) + 8 or self.__dict__.get("_pc_len") != len(self.pc):
            ids = {x.get_id() for x in self.pc}
        i = c.get_id()
        if i in ids:
            self._pc_ids, self._pc_len = ids, len(self.pc)
            return
        ids.add(i)
        self.pc.append(c)
        self._pc_ids, self._pc_len = ids, len(self.pc)

    def pc_term(self):
        return z3.And(self.pc) if self.pc else z3.BoolVal(True)


def _same(a, b) -> bool:
    return a is b or (a is not None and b is not None and a.get_id() == b.get_id())


def join(states: list[State]) -> State | None:
    """Join states that share a path-condition prefix into one (ite over what differs)."""
    states = [s for s in states if s is not None]
    if not states:
        return None
    if len(states) == 1:
        return states[0]
    # common prefix of pcs
    n = min(len(s.pc) for s in states)
    k = 0
    while k < n and all(_same(s.pc[k], states[0].pc[k]) for s in states[1:]):
        k += 1
    rests = [z3.And(s.pc[k:]) if len(s.pc) > k else z3.BoolVal(True) for s in states]
    out = states[0].fork()
    out.pc = list(states[0].pc[:k])
    out.pc.append(z3.Or(rests) if len(rests) > 1 else rests[0])
    out.nalloc = max(s.nalloc for s in states)

    def ite_chain(terms):
        # terms[i] under rests[i]; last is default
        acc = terms[-1]
        for c, t in zip(reversed(rests[:-1]), reversed(terms[:-1])):
            acc = t if _same(acc, t) else z3.If(c, t, acc)
        return acc

    # heap
    names = set()
    for s in states:
        names.update(s.heap.keys())
    for nm in names:
        arrs = [s.arr(nm) for s in states]
        if all(_same(a, arrs[0]) for a in arrs[1:]):
            out.heap[nm] = arrs[0]
        else:
            out.heap[nm] = ite_chain(arrs)
    gnames = set()
    for s in states:
        gnames.update(s.ghost.keys())
    for nm in gnames:
        gs = [s.ghost.get(nm) for s in states]
        if any(g is None for g in gs):
            # ghost introduced on some branches only: keep only if all present
            present = [g for g in gs if g is not None]
            if len(present) != len(gs):
                # initialise missing with initial symbol of same sort
                srt = present[0].sort()
                init = z3.Const(f"G0_{nm}", srt)
                gs = [g if g is not None else init for g in gs]
        if all(_same(g, gs[0]) for g in gs[1:]):
            out.ghost[nm] = gs[0]
        else:
            out.ghost[nm] = ite_chain(gs)
    # env
    vnames = set()
    for s in states:
        vnames.update(s.env.keys())
    for nm in vnames:
        vals = [s.env.get(nm) for s in states]
        bconds = []
        for s, v in zip(states, vals):
            if v is None:
                bconds.append(z3.BoolVal(False))
            else:
                bconds.append(s.bound.get(nm, z3.BoolVal(True)))
        present = [v for v in vals if v is not None]
        dummy = present[0]
        terms = [(v.t if v is not None else dummy.t) for v in vals]
        if all(_same(t, terms[0]) for t in terms[1:]):
            t = terms[0]
        else:
            t = ite_chain(terms)
        tys = {repr(v.ty) for v in present}
        ty = present[0].ty if len(tys) == 1 else _join_ty([v.ty for v in present])
        pys = [v.py for v in present]
        py = pys[0] if all(p is pys[0] for p in pys) and len(present) == len(vals) else None
        parts = present[0].parts if len(present) == len(vals) and all(v.parts is present[0].parts for v in present) else None
        out.env[nm] = Val(t, ty, py, parts)
        if all(z3.is_true(c) for c in bconds):
            out.bound.pop(nm, None)
        else:
            out.bound[nm] = z3.simplify(ite_chain(bconds)) if not all(_same(c, bconds[0]) for c in bconds[1:]) else bconds[0]
    return out


def _join_ty(tys):
    from .types import join_types

    return join_types(tys)
