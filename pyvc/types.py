"""Static type hints used by the executor to pick operator semantics and resolve methods.

A hint is one of: None (unknown), a real Python class (int, bool, str, NoneType, any class for heap objects),
Opt(T), ListT(T), TupleT([T..]) / TupleT(elem=T), DictT(K, V).  Hints never add assumptions by themselves;
assumptions come from `type_pred` terms that are explicitly assumed (parameters, field schemas) or proved.
"""
from __future__ import annotations

NoneType = type(None)


class Opt:
    def __init__(self, t):
        self.t = t

    def __repr__(self):
        return f"Opt[{tname(self.t)}]"


class ListT:
    def __init__(self, elem=None):
        self.elem = elem

    def __repr__(self):
        return f"list[{tname(self.elem)}]"


class TupleT:
    def __init__(self, items=None, elem=None):
        self.items = items  # fixed arity list of hints, or None
        self.elem = elem  # homogeneous element hint

    def __repr__(self):
        if self.items is not None:
            return "tuple[" + ",".join(tname(t) for t in self.items) + "]"
        return f"tuple[{tname(self.elem)},...]"


class DictT:
    def __init__(self, k=None, v=None):
        self.k = k
        self.v = v

    def __repr__(self):
        return f"dict[{tname(self.k)},{tname(self.v)}]"


class SetT:
    def __init__(self, elem=None):
        self.elem = elem

    def __repr__(self):
        return f"set[{tname(self.elem)}]"


def tname(t):
    if t is None:
        return "Any"
    if isinstance(t, type):
        return t.__name__
    return repr(t)


def strip_opt(t):
    return t.t if isinstance(t, Opt) else t


def join_types(tys):
    tys = list(tys)
    if not tys:
        return None
    has_none = any(t is NoneType for t in tys) or any(isinstance(t, Opt) for t in tys)
    core = [strip_opt(t) for t in tys if t is not NoneType]
    if not core:
        return NoneType
    if any(t is None for t in core):
        return None
    first = core[0]
    same = all(repr(t) == repr(first) for t in core[1:])
    if not same and all(isinstance(t, ListT) for t in core):
        r = ListT(join_types([t.elem for t in core]))
        return Opt(r) if has_none else r
    if not same and all(isinstance(t, TupleT) for t in core):
        r = TupleT(elem=join_types([t.elem if t.items is None else join_types(t.items) for t in core]))
        return Opt(r) if has_none else r
    if not same and all(isinstance(t, DictT) for t in core):
        r = DictT(join_types([t.k for t in core]), join_types([t.v for t in core]))
        return Opt(r) if has_none else r
    if not same:
        if all(isinstance(t, type) for t in core):
            # common base class (first one in the MRO of `first` that all share), ignoring object
            for base in first.__mro__:
                if base is object:
                    break
                if all(issubclass(t, base) for t in core):
                    return Opt(base) if has_none else base
        return None
    return Opt(first) if has_none else first


def is_seq_hint(t):
    return isinstance(t, (ListT, TupleT))


class SeqRaw:
    """spec-only: the Val's term is a z3 Seq(V) itself, not a reference"""

    def __init__(self, elem=None):
        self.elem = elem

    def __repr__(self):
        return f"seqraw[{tname(self.elem)}]"


class UnionT:
    """one of several container / class hints (used for parameters such as `params: Sequence | dict | None`)"""

    def __init__(self, members):
        self.members = list(members)

    def __repr__(self):
        return "Union[" + ",".join(tname(m) for m in self.members) + "]"


def class_of_hint(t):
    if isinstance(t, ListT):
        return list
    if isinstance(t, TupleT):
        return tuple
    if isinstance(t, DictT):
        return dict
    if isinstance(t, SetT):
        return set
    return t if isinstance(t, type) else None
