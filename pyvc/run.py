"""Developer entry: verify named functions and print per-obligation verdicts."""
from __future__ import annotations

import argparse
import sys
import time

sys.path.insert(0, "/verif")


def main():
    ap = argparse.ArgumentParser()
    ap.add_argument("names", nargs="*")
    ap.add_argument("--repo", default="/repo")
    ap.add_argument("--timeout", type=int, default=10000)
    ap.add_argument("-v", action="store_true")
    ap.add_argument("--jobs", type=int, default=None)
    ap.add_argument("--only", default=None, help="solve only obligations whose id contains this")
    a = ap.parse_args()
    from contracts.base import build_world
    from contracts.targets import TARGETS
    from pyvc.solve import discharge
    from pyvc.verify import verify_function

    w = build_world(a.repo)
    for relpath, qual, cname in TARGETS:
        if a.names and not any(n in cname for n in a.names):
            continue
        c = w.contracts[cname]
        t0 = time.time()
        r = verify_function(w, relpath, qual, c)
        if r.out_of_reach:
            print(f"== {cname}: OUT OF REACH: {r.out_of_reach}")
            continue
        if a.only:
            r.obligations = [o for o in r.obligations if a.only in o.id]
        discharge(r.obligations, timeout_ms=a.timeout, jobs=a.jobs)
        n = len(r.obligations)
        d = sum(1 for o in r.obligations if o.verdict == "discharged")
        print(f"== {cname}: {d}/{n} discharged, outcomes={r.outcomes}, gen {r.gen_time:.2f}s total {time.time()-t0:.2f}s")
        for o in r.obligations:
            bad = (o.verdict != "discharged") != o.expect_refuted
            if a.v or bad:
                print(f"   {'!!' if bad else '  '} {o.verdict:10s} {o.backend or '':8s} {o.time:6.2f}s {o.id}  [{o.where}] {o.note[:100]}")
                if bad and getattr(o, "model", None):
                    print("        model:", {k: v for k, v in list(o.model.items())[:12]})
                if bad and o.verdict == "undecided":
                    print("        reason:", (o.raw or "")[:200])


if __name__ == "__main__":
    main()
