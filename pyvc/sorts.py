"""Sorts and basic term helpers for pyvc: the boxed Python value sort V and the class table.

V = none | b(Bool) | i(Int) | s(String) | r(Int)          (r = reference into the symbolic heap)

Real Python objects that the analysed code names (classes, functions, modules, enum members, module-level
constants that are not str/int/bool/None) are *global constants*: references with a fixed negative id.
"""
from __future__ import annotations

import z3

_V = z3.Datatype("V")
_V.declare("none")
_V.declare("b", ("bval", z3.BoolSort()))
_V.declare("i", ("ival", z3.IntSort()))
_V.declare("s", ("sval", z3.StringSort()))
_V.declare("r", ("rid", z3.IntSort()))
V = _V.create()

NONE = V.none

I = z3.IntSort()
B = z3.BoolSort()
S = z3.StringSort()


def mkb(x):
    return V.b(x if z3.is_expr(x) else z3.BoolVal(bool(x)))


def mki(x):
    return V.i(x if z3.is_expr(x) else z3.IntVal(int(x)))


def mks(x):
    return V.s(x if z3.is_expr(x) else z3.StringVal(x))


def mkr(x):
    return V.r(x if z3.is_expr(x) else z3.IntVal(int(x)))


# immutable per-object maps are uninterpreted functions (facts about fresh objects are assumptions)
CLS = z3.Function("cls_of", I, I)  # class id of an object
KEY = z3.Function("key_of_cls", I, S)  # sqlglot Expression.key per class id
UPPER = z3.Function("py_upper", S, S)
LOWER = z3.Function("py_lower", S, S)
STR_OF = z3.Function("py_str_of", V, S)  # str(x) / format(x) for non-str, non-int values
REPR_OF = z3.Function("py_repr_of", V, S)


class ClassTable:
    """Finite universe of real classes, numbered in DFS pre-order so subclass sets are few ranges."""

    def __init__(self):
        self.ids: dict[type, int] = {}
        self.order: list[type] = []
        self._ranges: dict[type, list[tuple[int, int]]] = {}

    def add_tree(self, root: type):
        stack = [root]
        while stack:
            c = stack.pop()
            if c in self.ids:
                continue
            self.ids[c] = len(self.order)
            self.order.append(c)
            try:
                subs = type.__subclasses__(c)
            except TypeError:
                subs = []
            # stable order
            for s_ in sorted(subs, key=lambda k: (k.__module__, k.__qualname__), reverse=True):
                stack.append(s_)
        self._ranges.clear()

    def add(self, c: type):
        if c not in self.ids:
            self.ids[c] = len(self.order)
            self.order.append(c)
            self._ranges.clear()

    def cid(self, c: type) -> int:
        if c not in self.ids:
            self.add(c)
        return self.ids[c]

    def ranges(self, c) -> list[tuple[int, int]]:
        if isinstance(c, tuple):
            key = c
            cs = c
        else:
            key = c
            cs = (c,)
        if key in self._ranges:
            return self._ranges[key]
        for k in cs:
            self.cid(k)
        ids = sorted(i for k, i in self.ids.items() if any(_safe_issub(k, x) for x in cs))
        out = []
        for i in ids:
            if out and out[-1][1] == i - 1:
                out[-1] = (out[-1][0], i)
            else:
                out.append((i, i))
        self._ranges[key] = [tuple(x) for x in out]
        return self._ranges[key]

    def isa(self, clsterm, c) -> z3.BoolRef:
        rs = self.ranges(c)
        if not rs:
            return z3.BoolVal(False)
        return z3.Or([clsterm == lo if lo == hi else z3.And(clsterm >= lo, clsterm <= hi) for lo, hi in rs])


def _safe_issub(k, c):
    try:
        return issubclass(k, c)
    except TypeError:
        return False
