"""Specification expressions: Python expression strings evaluated by the same symbolic evaluator.

Extra names available in specs: old(e), result, exc, implies(a,b), iff(a,b), forall(lo,hi,lambda j: ..),
exists(lo,hi,lambda j: ..), ite(c,a,b), plus the spec functions registered in the world and the globals of
the module the function lives in.  Spec evaluation emits no obligations and never changes the state.
"""
from __future__ import annotations

import ast

import z3

from .sorts import NONE, V, mkb, mki
from .state import State, Val
from .types import NoneType
from .world import Unsupported

_parse_cache: dict[str, ast.AST] = {}
_NO = object()


def concrete_of(v):
    """python value of a Val whose term is a literal (None/bool/int/str), else _NO"""
    t = z3.simplify(v.t)
    if t.sort() != V:
        return _NO
    if z3.is_app(t):
        nm = t.decl().name()
        if nm == "none":
            return None
        if t.num_args() == 1:
            a = t.arg(0)
            if nm == "b" and (z3.is_true(a) or z3.is_false(a)):
                return z3.is_true(a)
            if nm == "i" and z3.is_int_value(a):
                return a.as_long()
            if nm == "s" and z3.is_string_value(a):
                return a.as_string()
    return _NO


def parse_spec(src: str) -> ast.AST:
    n = _parse_cache.get(src)
    if n is None:
        n = ast.parse(src.strip(), mode="eval").body
        _parse_cache[src] = n
    return n


class SpecCtx:
    def __init__(self, ex, old: State, cur: State, names: dict, module=None):
        self.ex = ex
        self.module = module
        self.old = old
        self.cur = cur
        self.names = dict(names)
        self.no_oblige = True
        self.lemmas = []  # valid (definitional) facts produced while evaluating, e.g. one-step unfoldings

    def lemma(self, fact):
        self.lemmas.append(fact)

    # entry points ---------------------------------------------------------------
    def eval(self, src: str) -> Val:
        out = self._run(lambda st: self.ev(parse_spec(src), st), self.cur)
        for lm in self.lemmas:
            self.cur.assume(lm)
        self.lemmas = []
        return out

    def eval_bool(self, src: str):
        def f(st):
            v = self.ev(parse_spec(src), st)
            return self.ex.truthy(st, v)

        out = self._run(f, self.cur)
        # definitional facts are valid in every state: record them where the formula is going to be used
        for lm in self.lemmas:
            self.cur.assume(lm)
        self.lemmas = []
        return out

    def eval_raw(self, src: str):
        return self.eval(src).t

    def _run(self, f, base: State):
        ex = self.ex
        saved = ex.spec
        ex.spec = self
        ex.frames.append([])
        try:
            scratch = base.fork()
            out = f(scratch)
            # facts recorded while evaluating (types of heap reads, identity of objects a spec expression allocates)
            for c in scratch.pc[len(base.pc):]:
                if not z3.is_false(c):
                    self.lemmas.append(c)
            return out
        finally:
            ex.frames.pop()
            ex.spec = saved

    # evaluation with spec forms ---------------------------------------------------
    def ev(self, node, st) -> Val:
        ex = self.ex
        if isinstance(node, ast.Call) and isinstance(node.func, ast.Name):
            fn = node.func.id
            if fn == "old":
                s2 = self.old.fork()
                r = self.ev(node.args[0], s2)
                for c in s2.pc[len(self.old.pc):]:
                    if not z3.is_false(c):
                        self.lemmas.append(c)
                return r
            if fn == "implies":
                a = ex.truthy(st, self.ev(node.args[0], st))
                b = ex.truthy(st, self.ev(node.args[1], st))
                return Val(mkb(z3.Implies(a, b)), bool)
            if fn == "iff":
                a = ex.truthy(st, self.ev(node.args[0], st))
                b = ex.truthy(st, self.ev(node.args[1], st))
                return Val(mkb(a == b), bool)
            if fn == "ite":
                c = ex.truthy(st, self.ev(node.args[0], st))
                a = self.ev(node.args[1], st)
                b = self.ev(node.args[2], st)
                ty = a.ty if repr(a.ty) == repr(b.ty) else None
                return Val(z3.If(c, a.t, b.t), ty)
            if fn in ("forall", "exists"):
                lo = ex.as_int(st, self.ev(node.args[0], st))
                hi = ex.as_int(st, self.ev(node.args[1], st))
                lam = node.args[2]
                assert isinstance(lam, ast.Lambda) and len(lam.args.args) == 1
                j = z3.Int(f"q!{id(node)}_{len(self.names)}")
                nm = lam.args.args[0].arg
                savedn = self.names.get(nm)
                self.names[nm] = Val(mki(j), int)
                body = ex.truthy(st, self.ev(lam.body, st))
                if savedn is None:
                    self.names.pop(nm, None)
                else:
                    self.names[nm] = savedn
                rng = z3.And(j >= lo, j < hi)
                q = z3.ForAll([j], z3.Implies(rng, body)) if fn == "forall" else z3.Exists([j], z3.And(rng, body))
                return Val(mkb(q), bool)
            sf = ex.w.specfuns.get(fn)
            if sf is not None and fn not in self.names:
                args = [self.ev(a, st) for a in node.args]
                if sf.pyfn is not None and sf.concrete_ok:
                    conc = [concrete_of(x) for x in args]
                    if all(c is not _NO for c in conc):
                        return ex.w.const(sf.pyfn(*conc))
                return sf.z3fn(ex, st, args)
        # generic: reuse the executor, but route sub-expressions through us for the spec forms
        return self._generic(node, st)

    def _generic(self, node, st):
        ex = self.ex
        if isinstance(node, ast.BoolOp):
            # python value semantics (no side effects in specs, so no short-circuit needed)
            vs = [self.ev(v, st) for v in node.values]
            if all(v.ty is bool for v in vs):
                ts = [V.bval(v.t) for v in vs]
                return Val(mkb(z3.And(ts) if isinstance(node.op, ast.And) else z3.Or(ts)), bool)
            from .types import join_types

            acc = vs[-1]
            for v in reversed(vs[:-1]):
                c = ex.truthy(st, v)
                if isinstance(node.op, ast.And):
                    acc = Val(z3.If(c, acc.t, v.t), join_types([acc.ty, v.ty]))
                else:
                    acc = Val(z3.If(c, v.t, acc.t), join_types([v.ty, acc.ty]))
            return acc
        if isinstance(node, ast.UnaryOp) and isinstance(node.op, ast.Not):
            return Val(mkb(z3.Not(ex.truthy(st, self.ev(node.operand, st)))), bool)
        if isinstance(node, ast.IfExp):
            c = ex.truthy(st, self.ev(node.test, st))
            a = self.ev(node.body, st)
            b = self.ev(node.orelse, st)
            return Val(z3.If(c, a.t, b.t), a.ty if repr(a.ty) == repr(b.ty) else None)
        if _has_spec_form(node, ex.w.specfuns):
            # evaluate children through us: rebuild by evaluating spec-form calls first into temp names
            node2, binds = _lift_spec_calls(node, ex.w.specfuns)
            for nm, sub in binds.items():
                self.names[nm] = self.ev(sub, st)
            try:
                return ex.ev(node2, st)
            finally:
                for nm in binds:
                    self.names.pop(nm, None)
        return ex.ev(node, st)


_SPEC_FORMS = {"old", "implies", "iff", "forall", "exists", "ite"}


def _has_spec_form(node, specfuns):
    for n in ast.walk(node):
        if isinstance(n, ast.Call) and isinstance(n.func, ast.Name) and (n.func.id in _SPEC_FORMS or n.func.id in specfuns):
            return True
        if isinstance(n, (ast.BoolOp, ast.IfExp)) or (isinstance(n, ast.UnaryOp) and isinstance(n.op, ast.Not)):
            return True
    return False


class _Lifter(ast.NodeTransformer):
    def __init__(self, specfuns):
        self.binds = {}
        self.specfuns = specfuns
        self.k = 0

    def _lift(self, node):
        self.k += 1
        nm = f"$sp{self.k}_{id(node)}"
        self.binds[nm] = node
        return ast.copy_location(ast.Name(id=nm, ctx=ast.Load()), node)

    def visit_Call(self, node):
        if isinstance(node.func, ast.Name) and (node.func.id in _SPEC_FORMS or node.func.id in self.specfuns):
            return self._lift(node)
        return self.generic_visit(node)

    def visit_BoolOp(self, node):
        return self._lift(node)

    def visit_IfExp(self, node):
        return self._lift(node)

    def visit_UnaryOp(self, node):
        if isinstance(node.op, ast.Not):
            return self._lift(node)
        return self.generic_visit(node)

    def visit_Lambda(self, node):
        return node


def _lift_spec_calls(node, specfuns):
    import copy

    lf = _Lifter(specfuns)
    # do not lift the root itself (caller handles root forms)
    node2 = copy.deepcopy(node)
    for field, value in ast.iter_fields(node2):
        if isinstance(value, list):
            setattr(node2, field, [lf.visit(v) if isinstance(v, ast.AST) else v for v in value])
        elif isinstance(value, ast.AST):
            setattr(node2, field, lf.visit(value))
    return node2, lf.binds


def eval_nested(ex, st, src: str, names: dict) -> Val:
    """evaluate a specification expression from inside a spec function (macro-like spec definitions)"""
    outer = ex.spec
    ctx = SpecCtx(ex, old=outer.old if outer is not None else st, cur=st, names=names, module=getattr(outer, "module", None))
    out = ctx._run(lambda s2: ctx.ev(parse_spec(src), s2), st)
    if outer is not None:
        outer.lemmas.extend(ctx.lemmas)
    else:
        for lm in ctx.lemmas:
            st.assume(lm)
    return out
