"""Discharge obligations out of process: every obligation is printed as SMT-LIB 2 and given to a portfolio of
solver processes with hard timeouts (z3 5.1 CLI, z3 5.1 e-matching only, z3 4.8.12, cvc5).  `unsat` from any back
end discharges; `sat` refutes; anything else is undecided.  A thread pool runs up to 16 solver processes."""
from __future__ import annotations

import concurrent.futures as cf
import os
import shutil
import subprocess
import tempfile
import time

import z3

import threading

_Z3_LOCK = threading.Lock()
Z3NEW = shutil.which("z3-new") or "/usr/local/bin/z3-new"
Z3OLD = "/usr/bin/z3"
CVC5 = "/usr/bin/cvc5"


_HQ_CACHE: dict[int, bool] = {}
_HQ_KEEP = []


def _has_quant(t):
    k = t.get_id()
    r = _HQ_CACHE.get(k)
    if r is None:
        r = _has_quant_uncached(t)
        _HQ_CACHE[k] = r
        _HQ_KEEP.append(t)
    return r


def _has_quant_uncached(t):
    seen = set()
    stack = [t]
    while stack:
        x = stack.pop()
        if x.get_id() in seen:
            continue
        seen.add(x.get_id())
        if z3.is_quantifier(x):
            return True
        stack.extend(x.children())
    return False


def _case_split(pc, max_cases=96):
    """expand top-level disjunctions among the hypotheses (they come from joins of paths) into separate cases"""
    cases = [list(pc)]
    # split on the disjunctions from last to first while the number of cases stays small
    idxs = [k for k in range(len(pc) - 1, -1, -1) if z3.is_or(pc[k]) and 2 <= pc[k].num_args() <= 64]
    for k in idxs[:3]:
        n = pc[k].num_args()
        if len(cases) * n > max_cases:
            continue
        new = []
        for c in cases:
            for j in range(n):
                d = pc[k].arg(j)
                c2 = list(c)
                c2[k] = d
                new.append(c2)
        cases = new
    return cases


def to_smt2(pc, goal) -> str:
    s = z3.Solver()
    for c in pc:
        s.add(c)
    s.add(z3.Not(goal))
    return s.to_smt2()


def _run(cmd, text, timeout_s, tmpdir):
    fd, path = tempfile.mkstemp(suffix=".smt2", dir=tmpdir)
    try:
        with os.fdopen(fd, "w") as f:
            f.write(text)
        t0 = time.time()
        try:
            p = subprocess.run(cmd + [path], capture_output=True, text=True, timeout=timeout_s + 3)
            out = (p.stdout or "") + (p.stderr or "")
        except subprocess.TimeoutExpired:
            return "timeout", "hard timeout", time.time() - t0
        first = ""
        for ln in out.splitlines():
            ln = ln.strip()
            if ln in ("sat", "unsat", "unknown", "timeout"):
                first = ln
                break
        return first or "error", out, time.time() - t0
    finally:
        try:
            os.unlink(path)
        except OSError:
            pass


def _portfolio(timeout_s):
    t = max(1, int(timeout_s))
    return [
        ("z3", [Z3NEW, f"-T:{t}"]),
        ("z3/ematch", [Z3NEW, f"-T:{t}", "smt.auto_config=false", "smt.mbqi=false"]),
        ("z3-4.8", [Z3OLD, f"-T:{t}"]),
    ]


def _race(cmds, text, timeout_s, tmpdir):
    """run several solver configurations on the same text at once; first `unsat` (any) or `sat` (primary) wins, the others are killed"""
    fd, path = tempfile.mkstemp(suffix=".smt2", dir=tmpdir)
    with os.fdopen(fd, "w") as f:
        f.write(text)
    fd2, path2 = tempfile.mkstemp(suffix=".smt2", dir=tmpdir)
    with os.fdopen(fd2, "w") as f:
        f.write("(set-logic ALL)\n" + text)  # cvc5 wants a logic line; z3 gets the text as it is
    procs = []
    t0 = time.time()
    try:
        for name, cmd in cmds:
            procs.append((name, subprocess.Popen(cmd + [path2 if name == "cvc5" else path], stdout=subprocess.PIPE, stderr=subprocess.STDOUT, text=True)))
        notes = []
        pending = list(procs)
        while pending and time.time() - t0 < timeout_s + 3:
            for name, p in list(pending):
                if p.poll() is None:
                    continue
                pending.remove((name, p))
                out = p.stdout.read() or ""
                first = next((ln.strip() for ln in out.splitlines() if ln.strip() in ("sat", "unsat", "unknown", "timeout")), "error")
                if first == "unsat":
                    return "unsat", name, time.time() - t0, None
                if first == "sat" and name == "z3":
                    return "sat", name, time.time() - t0, out[:6000]
                notes.append(f"{name}: {first}")
            time.sleep(0.05)
        notes += [f"{name}: hard timeout" for name, _ in pending]
        return "unknown", "portfolio", time.time() - t0, "; ".join(notes)
    finally:
        for _, p in procs:
            if p.poll() is None:
                p.kill()
            try:
                p.stdout.close()
            except Exception:  # noqa: BLE001
                pass
            p.wait()
        for pth in (path, path2):
            try:
                os.unlink(pth)
            except OSError:
                pass


def solve_text(text_full, text_qf, timeout_s, tmpdir, want_model=False, race=False, first=None, only_first=False):
    """-> (verdict, backend, seconds, raw).  `first`: name of the portfolio member that discharged this obligation in an earlier
    run (a hint read from contracts/solver_hints.json): it is tried first; the verdict does not depend on the order."""
    t0 = time.time()
    notes = []
    if race:
        cmds = []
        if text_qf is not None:
            r, out, dt = _run([Z3NEW, f"-T:{max(1, int(timeout_s) // 3)}"], text_qf, timeout_s // 3 + 1, tmpdir)
            if r == "unsat":
                return "unsat", "z3(qf-hyps)", time.time() - t0, None
        cmds = list(_portfolio(timeout_s))
        if os.path.exists(CVC5):
            cmds.append(("cvc5", [CVC5, "--strings-exp", f"--tlimit={int(timeout_s) * 1000}"]))
        v = _race(cmds, text_full + ("\n(get-model)\n" if want_model else ""), timeout_s, tmpdir)
        return v[0], v[1], time.time() - t0, v[3]
    # stage 1: quantifier-free hypotheses only (sound: fewer assumptions)
    if text_qf is not None:
        r, out, dt = _run([Z3NEW, f"-T:{max(1, int(timeout_s) // 3)}"], text_qf, timeout_s // 3 + 1, tmpdir)
        if r == "unsat":
            return "unsat", "z3(qf-hyps)", time.time() - t0, None
    members = _portfolio(timeout_s)
    if first and first != "z3" and any(n == first for n, _ in members):
        members = [m for m in members if m[0] == first] + [m for m in members if m[0] != first]
    if only_first:
        members = members[:1]
    for name, cmd in members:
        txt = text_full + ("\n(get-model)\n" if want_model else "")
        r, out, dt = _run(cmd, txt, timeout_s, tmpdir)
        if r == "unsat":
            return "unsat", name, time.time() - t0, None
        if r == "sat" and name == "z3":
            # only the primary solver's models are believed (its quantifier instantiation checks them); a `sat` of the
            # secondary configurations on quantified / lambda terms is treated as undecided
            return "sat", name, time.time() - t0, out[:6000]
        notes.append(f"{name}: {r} {out.strip()[:120] if r in ('error',) else ''}")
    if os.path.exists(CVC5) and not only_first:
        r, out, dt = _run([CVC5, "--strings-exp", f"--tlimit={int(timeout_s) * 1000}"], "(set-logic ALL)\n" + text_full, timeout_s, tmpdir)
        if r == "unsat":
            return "unsat", "cvc5", time.time() - t0, None
        notes.append(f"cvc5: {r if r != 'error' else out.strip()[:100]}")
    return "unknown", "portfolio", time.time() - t0, "; ".join(notes)


def discharge(obligations, probes=None, timeout_ms=10000, jobs=None, hints=None, race=None, quick_only=False):
    """sets .verdict ('discharged'|'refuted'|'undecided'), .backend, .time, .raw on every obligation.

    Every obligation is attempted as a whole by the portfolio; obligations whose hypotheses contain joined paths
    (top-level disjunctions) are, concurrently, attempted case by case.  Whichever concludes first decides; case tasks
    of an obligation that is already decided are skipped."""
    n = len(obligations)
    if n == 0:
        return
    jobs = jobs or min(16, os.cpu_count() or 1)
    timeout_s = max(1, timeout_ms // 1000)
    # few obligations (typically the escalation round): run the portfolio members side by side instead of one after the other
    if race is None:
        race = sum(1 for ob in obligations if not z3.is_true(ob.goal)) <= max(1, jobs // 4)
    tmpdir = tempfile.mkdtemp(prefix="pyvc_")
    try:
        whole = []
        case_tasks = []
        ncases = {}
        for i, ob in enumerate(obligations):
            if z3.is_true(ob.goal):
                ob.verdict, ob.backend, ob.time = "discharged", "simplifier", 0.0
                continue
            full = to_smt2(ob.pc, ob.goal)
            qf_pc = [c for c in ob.pc if not _has_quant(c)]
            qf = to_smt2(qf_pc, ob.goal) if len(qf_pc) != len(ob.pc) else None
            whole.append((i, full, qf))
            ob.smt2_size = len(full)
            if not ob.expect_refuted and not quick_only:
                sp = getattr(ob, "splits", None)
                if sp:
                    # the contract's own case analysis (exhaustive: the last case is "none of the conditions")
                    cases = [list(ob.pc) + [c] for c in sp] + [list(ob.pc) + [z3.Not(z3.Or(list(sp)))]]
                else:
                    cases = _case_split(ob.pc, max_cases=96)
                if cases and len(cases) >= 2:
                    ncases[i] = len(cases)
                    for k, pc_k in enumerate(cases):
                        case_tasks.append((i, k, pc_k))
        if not whole:
            return
        decided = {}
        case_res = {i: {} for i in ncases}
        t_start = {i: time.time() for i, _, _ in whole}

        def task_whole(item):
            i, full, qf = item
            if obligations[i].expect_refuted:
                r, out, dt = _run([Z3NEW, "-T:5"], full, 5, tmpdir)
                return ("whole", i, None, ({"sat": "sat", "unsat": "unsat"}.get(r, "unknown"), "z3", dt, None))
            res = solve_text(full, qf, timeout_s, tmpdir, want_model=True, race=race and not quick_only, first=(hints or {}).get(obligations[i].id), only_first=quick_only)
            if res[0] in ("unsat", "sat"):
                decided.setdefault(i, res[0])
            return ("whole", i, None, res)

        def task_case(item):
            i, k, pc_k = item
            if i in decided:
                return ("case", i, k, ("skipped", "", 0.0, None))
            with _Z3_LOCK:  # the z3 python API is not thread safe
                text = to_smt2(pc_k, obligations[i].goal)
            res = solve_text(text, None, timeout_s, tmpdir, want_model=True)
            if res[0] == "sat":
                decided.setdefault(i, "sat")
            return ("case", i, k, res)

        def _pool_run():
            results_whole = {}
            with cf.ThreadPoolExecutor(max_workers=jobs) as pool:
                futs = [pool.submit(task_whole, it) for it in whole] + [pool.submit(task_case, it) for it in case_tasks]
                for f in cf.as_completed(futs):
                    kind, i, k, res = f.result()
                    if kind == "whole":
                        results_whole[i] = res
                    else:
                        case_res[i][k] = res
                        if len(case_res[i]) == ncases[i] and all(v[0] == "unsat" for v in case_res[i].values()):
                            decided.setdefault(i, "unsat")
            for i, _, _ in whole:
                ob = obligations[i]
                verdict, backend, dt, raw = results_whole[i]
                ob.time = time.time() - t_start[i] if False else dt
                cr = case_res.get(i, {})
                if verdict == "unsat":
                    ob.verdict, ob.backend, ob.raw = "discharged", backend, None
                elif cr and len(cr) == ncases[i] and all(v[0] == "unsat" for v in cr.values()):
                    ob.verdict, ob.backend, ob.raw = "discharged", f"z3/cases({ncases[i]})", None
                    ob.time += sum(v[2] for v in cr.values())
                elif verdict == "sat":
                    ob.verdict, ob.backend, ob.raw = "refuted", backend, raw
                elif any(v[0] == "sat" for v in cr.values()):
                    k = next(k for k, v in cr.items() if v[0] == "sat")
                    ob.verdict, ob.backend, ob.raw = "refuted", f"{cr[k][1]}/case{k}", cr[k][3]
                else:
                    ob.verdict, ob.backend = "undecided", backend
                    ob.raw = (raw or "") + (f"; cases({ncases[i]}): " + ",".join(cr[k][0] for k in sorted(cr)) if cr else "")
        import gc

        # worker threads call the z3 API only under _Z3_LOCK, but the cyclic garbage collector may run in *any* thread at any
        # allocation and finalise z3 objects (Z3_dec_ref) while another thread is inside an API call (ctypes releases the GIL):
        # that crashed the checker once.  No collection while the pool runs.
        gc_was = gc.isenabled()
        gc.disable()
        try:
            _pool_run()
        finally:
            if gc_was:
                gc.enable()
    finally:
        shutil.rmtree(tmpdir, ignore_errors=True)


def model_values(ob, terms: dict, timeout_ms=20000):
    """re-solve a refuted obligation in process to evaluate `terms` in a model (used for replay only)"""
    s = z3.Solver()
    s.set("timeout", timeout_ms)
    for c in ob.pc:
        s.add(c)
    s.add(z3.Not(ob.goal))
    if s.check() != z3.sat:
        return None
    m = s.model()
    out = {}
    for k, t in terms.items():
        try:
            out[k] = m.eval(t, model_completion=True)
        except z3.Z3Exception:
            out[k] = None
    return out
