"""Discharge obligations: z3 (python API) first, /usr/bin/cvc5 --strings-exp on z3's unknowns. 16-process fork pool."""
from __future__ import annotations

import multiprocessing as mp
import os
import subprocess
import tempfile
import time

import z3

_OBLS = []
_PROBES = {}
_TIMEOUT_MS = 10000


def _val_to_py(m, t):
    try:
        v = m.eval(t, model_completion=True)
        return str(v)
    except Exception as e:  # noqa: BLE001
        return f"<eval failed: {e}>"


def _solve_one(i):
    ob = _OBLS[i]
    t0 = time.time()
    # stage 1: quantifier-free hypotheses only (sound: fewer assumptions); cheap and robust
    qf = [c for c in ob.pc if not _has_quant(c)]
    if len(qf) != len(ob.pc):
        s1 = z3.Solver()
        s1.set("timeout", max(1000, _TIMEOUT_MS // 4))
        for c in qf:
            s1.add(c)
        s1.add(z3.Not(ob.goal))
        try:
            if s1.check() == z3.unsat:
                return i, "unsat", "z3", time.time() - t0, None, None
        except z3.Z3Exception:
            pass
    s = z3.Solver()
    s.set("timeout", _TIMEOUT_MS)
    for c in ob.pc:
        s.add(c)
    s.add(z3.Not(ob.goal))
    try:
        r = s.check()
    except z3.Z3Exception as e:
        return i, "unknown", "z3", time.time() - t0, None, f"z3 exception: {e}"
    dt = time.time() - t0
    if r == z3.unsat:
        return i, "unsat", "z3", dt, None, None
    if r == z3.sat:
        m = s.model()
        probes = {k: _val_to_py(m, t) for k, t in _PROBES.get(i, {}).items()}
        return i, "sat", "z3", dt, probes, str(m)[:4000]
    reason = s.reason_unknown()
    # second back end
    try:
        smt = s.to_smt2()
        r2, out2 = _cvc5(smt, max(5, _TIMEOUT_MS // 1000))
        if r2 == "unsat":
            return i, "unsat", "cvc5", time.time() - t0, None, None
        if r2 == "sat":
            # cvc5 model is not mapped back to probes; report as sat with raw output
            return i, "sat", "cvc5", time.time() - t0, {}, out2[:4000]
        return i, "unknown", "z3+cvc5", time.time() - t0, None, f"z3: {reason}; cvc5: {out2[:200]}"
    except Exception as e:  # noqa: BLE001
        return i, "unknown", "z3", time.time() - t0, None, f"z3: {reason}; cvc5 not run: {e}"


def _has_quant(t):
    seen = set()
    stack = [t]
    while stack:
        x = stack.pop()
        if x.get_id() in seen:
            continue
        seen.add(x.get_id())
        if z3.is_quantifier(x):
            return True
        stack.extend(x.children())
    return False


def _cvc5(smt: str, timeout_s: int):
    smt = smt.replace("(check-sat)", "(check-sat)\n")
    with tempfile.NamedTemporaryFile("w", suffix=".smt2", delete=False, dir=os.environ.get("PYVC_TMP", None)) as f:
        f.write("(set-logic ALL)\n" + smt)
        path = f.name
    try:
        p = subprocess.run(
            ["/usr/bin/cvc5", "--strings-exp", f"--tlimit={timeout_s * 1000}", path],
            capture_output=True,
            text=True,
            timeout=timeout_s + 5,
        )
        out = (p.stdout + p.stderr).strip()
        first = out.split("\n")[0].strip() if out else ""
        if first in ("sat", "unsat"):
            return first, out
        return "unknown", out
    except subprocess.TimeoutExpired:
        return "unknown", "timeout"
    finally:
        try:
            os.unlink(path)
        except OSError:
            pass


def discharge(obligations, probes=None, timeout_ms=10000, jobs=None):
    """sets .verdict ('discharged'|'refuted'|'undecided'), .backend, .time, .model on every obligation"""
    global _OBLS, _PROBES, _TIMEOUT_MS
    _OBLS = obligations
    _PROBES = probes or {}
    _TIMEOUT_MS = timeout_ms
    n = len(obligations)
    if n == 0:
        return
    jobs = jobs or min(16, os.cpu_count() or 1, n)
    # trivially true goals need no solver
    todo = []
    for i, ob in enumerate(obligations):
        if z3.is_true(ob.goal):
            ob.verdict, ob.backend, ob.time = "discharged", "simplifier", 0.0
        else:
            todo.append(i)
    if not todo:
        return
    if jobs > 1 and len(todo) > 1:
        ctx = mp.get_context("fork")
        with ctx.Pool(min(jobs, len(todo))) as pool:
            results = pool.map(_solve_one, todo, chunksize=1)
    else:
        results = [_solve_one(i) for i in todo]
    for i, verdict, backend, dt, probes_out, raw in results:
        ob = obligations[i]
        ob.backend, ob.time, ob.raw = backend, dt, raw
        if verdict == "unsat":
            ob.verdict = "discharged"
        elif verdict == "sat":
            ob.verdict = "refuted"
            ob.model = probes_out
        else:
            ob.verdict = "undecided"
