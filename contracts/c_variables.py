"""Contracts for fakesnow/variables.py (C15)."""
from __future__ import annotations

from pyvc.types import DictT, ListT, NoneType, Opt, TupleT
from pyvc.world import ClassSchema, Contract


def install(w):
    import fakesnow.variables as fv

    Vr = fv.Variables
    w.schemas[Vr] = ClassSchema(Vr, fields={"_variables": DictT(str, str)})
    M = "fakesnow.variables.Variables."
    w.add_contract(
        Contract(
            M + "__init__",
            params={"self": Vr},
            requires=[],
            result=NoneType,
            modifies=["self._variables"],
            ensures={"C15.init.empty": "is_fresh(self._variables) and dict_len(self._variables) == 0 and forall(0, 1, lambda z: True)"},
            props=["C15"],
        )
    )

    import snowflake.connector.errors as sferr

    w.add_contract(
        Contract(
            M + "inline_variables",
            params={"self": Vr, "sql": str},
            requires=[],
            result=str,
            modifies=[],
            raises={sferr.ProgrammingError: {"when": None, "ensures": {"C15.undefined.message": "isinstance(exc.msg, str)"}, "modifies": []}},
            ensures={"C15.inline.total": "isinstance(result, str)"},
            log=("inline_variables", ["self", "sql"]),
            props=["C15", "C07", "C08"],
        )
    )


def install_methods(w):
    """SET / UNSET bookkeeping: the variable store as a map (C15: $name stands for the value of the latest SET until UNSET)"""
    import z3
    from sqlglot import exp

    import fakesnow.variables as fv
    from pyvc.sorts import V, mkb
    from pyvc.state import Val
    from pyvc.world import SpecFun

    Vr = fv.Variables
    E = exp.Expression
    M = "fakesnow.variables.Variables."

    def _dict_same_except(ex, st, args):
        """dict_same_except(d, k): every key other than k maps as it did at entry (presence and value)"""
        old = ex.spec.old if ex.spec is not None else st
        did = V.rid(args[0].t)
        k = args[1].t
        cm, om, ch, oh = st.arr("$dmap")[did], old.arr("$dmap")[did], st.arr("$dhas")[did], old.arr("$dhas")[did]
        # quantifier-free: the maps agree everywhere once the entry for k is overwritten with its new value
        return Val(mkb(z3.And(cm == z3.Store(om, k, cm[k]), ch == z3.Store(oh, k, ch[k]))), bool)

    def _dict_unchanged(ex, st, args):
        old = ex.spec.old if ex.spec is not None else st
        did = V.rid(args[0].t)
        return Val(mkb(z3.And(st.arr("$dhas")[did] == old.arr("$dhas")[did], st.arr("$dmap")[did] == old.arr("$dmap")[did])), bool)

    w.specfuns["dict_same_except"] = SpecFun("dict_same_except", _dict_same_except)
    w.specfuns["dict_unchanged"] = SpecFun("dict_unchanged", _dict_unchanged)

    DFIELDS = ["self._variables.$dmap", "self._variables.$dhas", "self._variables.$klen", "self._variables.$kel"]
    w.add_contract(
        Contract(
            M + "_set",
            params={"self": Vr, "name": str, "value": str},
            requires=[],
            result=NoneType,
            modifies=DFIELDS,
            ensures={
                "C15.set.binds": "dict_has(self._variables, name) and dict_at(self._variables, name) == value",
                "C15.set.others_unchanged": "dict_same_except(self._variables, name)",
            },
            props=["C15"],
        )
    )
    w.add_contract(
        Contract(
            M + "_unset",
            params={"self": Vr, "name": str},
            requires=[],
            result=NoneType,
            modifies=DFIELDS,
            # (UNSET of a name that is not defined surfaces as KeyError; the property says nothing about it)
            raises={KeyError: {"when": "not old(dict_has(self._variables, name))", "ensures": {}, "modifies": []}},
            ensures={
                "C15.unset.removes": "not dict_has(self._variables, name)",
                "C15.unset.others_unchanged": "dict_same_except(self._variables, name)",
            },
            props=["C15"],
        )
    )
    UNSET = "(isinstance(expr, exp.Alias) and isinstance(arg(arg(expr, 'this'), 'this'), exp.Expression) and arg(arg(arg(expr, 'this'), 'this'), 'this') == 'UNSET')"
    w.add_contract(
        Contract(
            M + "_is_unset_expression",
            params={"cls": None, "expr": E},
            # field shape: an Alias has a node as `this`
            requires=["implies(isinstance(expr, exp.Alias), isinstance(arg(expr, 'this'), exp.Expression))"],
            result=bool,
            modifies=[],
            pure=True,
            ensures={"C15.is_unset.def": f"result == {UNSET}"},
            props=["C15"],
        )
    )
    SETX = "(isinstance(expr, exp.Set) and not arg(expr, 'unset'))"
    EQ = "arg(seq_at(arg(expr, 'expressions'), 0), 'this')"
    w.add_contract(
        Contract(
            M + "update_variables",
            params={"self": Vr, "expr": E},
            requires=[
                "implies(isinstance(expr, exp.Alias), isinstance(arg(expr, 'this'), exp.Expression))",
                # field shapes of a parsed SET name = value (A-SQLGLOT 1): expressions = [SetItem(this=EQ(this=name, expression=value))]
                f"implies({SETX} and bool(arg(expr, 'expressions')), is_list(arg(expr, 'expressions')) and isinstance(seq_at(arg(expr, 'expressions'), 0), exp.Expression) "
                f"and isinstance({EQ}, exp.Expression) and isinstance(arg({EQ}, 'this'), exp.Expression) and isinstance(arg({EQ}, 'expression'), exp.Expression))",
                f"implies({UNSET} and bool(arg(expr, 'alias')), isinstance(arg(expr, 'alias'), exp.Expression) and isinstance(arg(arg(expr, 'alias'), 'this'), str))",
            ],
            result=NoneType,
            modifies=DFIELDS,
            locals={"set_expressions": Opt(ListT(E)), "eq": E},
            raises={
                AssertionError: {"when": None, "ensures": {}, "modifies": []},
                NotImplementedError: {"when": "isinstance(expr, exp.Set) and old(bool(arg(expr, 'unset')))", "ensures": {}, "modifies": []},
                KeyError: {"when": f"not isinstance(expr, exp.Set) and {UNSET} and bool(old(arg(expr, 'alias'))) and not old(dict_has(self._variables, arg(arg(expr, 'alias'), 'this')))", "ensures": {}, "modifies": []},
            },
            ensures={
                # SET name = value: $NAME stands for the text of value from now on; nothing else changes
                "C15.update.set": f"implies(old({SETX}), dict_has(self._variables, old(sql_of(arg({EQ}, 'this'), ''))) and dict_at(self._variables, old(sql_of(arg({EQ}, 'this'), ''))) == old(sql_of(arg({EQ}, 'expression'), '')) "
                f"and dict_same_except(self._variables, old(sql_of(arg({EQ}, 'this'), ''))))",
                "C15.update.unset": f"implies(not isinstance(expr, exp.Set) and old({UNSET}), bool(old(arg(expr, 'alias'))) and not dict_has(self._variables, old(arg(arg(expr, 'alias'), 'this'))) and dict_same_except(self._variables, old(arg(arg(expr, 'alias'), 'this'))))",
                # every other statement leaves the variables alone
                "C15.update.else_unchanged": f"implies(not isinstance(expr, exp.Set) and not old({UNSET}), dict_unchanged(self._variables))",
            },
            props=["C15"],
        )
    )
