"""Contracts for fakesnow/variables.py (C15)."""
from __future__ import annotations

from pyvc.types import DictT, ListT, NoneType, Opt, TupleT
from pyvc.world import ClassSchema, Contract


def install(w):
    import fakesnow.variables as fv

    Vr = fv.Variables
    w.schemas[Vr] = ClassSchema(Vr, fields={"_variables": DictT(str, str)})
    M = "fakesnow.variables.Variables."
    w.add_contract(
        Contract(
            M + "__init__",
            params={"self": Vr},
            requires=[],
            result=NoneType,
            modifies=["self._variables"],
            ensures={"C15.init.empty": "is_fresh(self._variables) and dict_len(self._variables) == 0 and forall(0, 1, lambda z: True)"},
            props=["C15"],
        )
    )

    import snowflake.connector.errors as sferr

    w.add_contract(
        Contract(
            M + "inline_variables",
            params={"self": Vr, "sql": str},
            requires=[],
            result=str,
            modifies=[],
            raises={sferr.ProgrammingError: {"when": None, "ensures": {"C15.undefined.message": "isinstance(exc.msg, str)"}, "modifies": []}},
            ensures={"C15.inline.total": "isinstance(result, str)"},
            log=("inline_variables", ["self", "sql"]),
            props=["C15", "C07", "C08"],
        )
    )
