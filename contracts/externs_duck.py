"""A-DUCK: assumed contracts of the DuckDB 1.0 python API calls made by fakesnow (DESIGN 3.4 / Appendix C).

Ghost state of one DuckDB instance (shared by all its cursors):
    $cats    : String -> Bool             attached catalogs, keyed by UPPER-cased name (DuckDB resolves names case-insensitively)
    $schemas : String -> String -> Bool   schemas per catalog, both UPPER-cased
    $files   : String -> String           backing file of a catalog ('' unknown)
    $boot    : String -> Bool             catalog has fakesnow's info-schema extension objects;  $macros likewise
and per DuckDB connection object c:
    $search  : Int -> String              current 'CATALOG.SCHEMA' (upper) of connection c  ('' = instance default)
    $dlast   : Int -> Int                 id of the result of the last statement executed on c
    $closed  : Int -> Bool
plus the trace of statements executed in this call:  $trace_n : Int,  $trace : Int -> String  (sql text),
$trace_c : Int -> Int (connection).

SQL text is matched *syntactically* against the templates below (whitespace-normalised f-string skeleton); a statement
that matches no template gets the generic contract (may raise any duckdb.Error; on success appends to the trace and
gives a new unknown result; catalog ghosts unchanged only if the caller's contract says so -- it is havocked here).
"""
from __future__ import annotations

import re

import z3

from pyvc.sorts import B, CLS, I, NONE, S, UPPER, V, mkb, mki, mkr, mks
from pyvc.state import Val, fresh_name
from pyvc.types import DictT, ListT, NoneType, Opt, TupleT
from pyvc.world import ClassSchema, SpecFun, Unsupported

A = "A-DUCK (DuckDB 1.0: execute/fetchone/fetchall/fetch_arrow_table/cursor/close; ATTACH, CREATE SCHEMA, SET schema, information_schema.schemata queries mean what their text says; errors are duckdb.Error subclasses; DML result is one row holding the affected-row count)"

SS = z3.ArraySort(S, B)
SSS = z3.ArraySort(S, z3.ArraySort(S, B))
S2S = z3.ArraySort(S, S)
IS = z3.ArraySort(I, S)
II = z3.ArraySort(I, I)
IB = z3.ArraySort(I, B)

GHOSTS = {
    "$cats": SS,
    "$schemas": SSS,
    "$files": S2S,
    "$boot": SS,
    "$macros": SS,
    "$search": IS,
    "$dlast": II,
    "$closed": IB,
    "$trace_n": I,
    "$trace": IS,
    "$trace_c": II,
    "$tres": II,
}

RES_NONEMPTY = z3.Function("duck_res_nonempty", I, B)
RES_COUNT = z3.Function("duck_res_count", I, V)  # first column of first row
RES_TABLE = z3.Function("duck_res_table", I, I)  # arrow table id
RES_ROWS_N = z3.Function("duck_res_nrows", I, I)
RES_KIND = z3.Function("duck_res_kind", I, I)  # 0 unknown, 1 dml-count, 2 fakesnow status row
RES_NCOLS = z3.Function("duck_res_ncols", I, I)
DUCK_DML = z3.Function("duck_is_dml", S, B)  # the statement text is an INSERT / UPDATE / DELETE (A-SQLGLOT 5 keeps the kind)
IS_STATUS = z3.Function("duck_is_fakesnow_status_select", S, B)  # text instantiated from one of cursor.py's SQL_* status templates
DUCK_TXN_END = z3.Function("duck_is_commit_or_rollback", S, B)
ATTACHED_DB = z3.Function("duck_attached_db", S, S)  # name of the database the statement text attaches ('' if none)


def ghost(st, name):
    g = st.ghost.get(name)
    if g is None:
        srt = GHOSTS[name]
        g = z3.Const(f"G0_{name}", srt)
        st.ghost[name] = g
    return g


def norm_sql(parts):
    """-> (signature with {} holes, [hole Vals]) or None when the text is not built from literal pieces"""
    if parts is None:
        return None
    sig = ""
    holes = []
    for p in parts:
        if isinstance(p, str):
            sig += p
        elif isinstance(p, Val):
            if p.parts is not None and all(isinstance(x, str) for x in p.parts):
                sig += "".join(p.parts)
            else:
                sig += "{}"
                holes.append(p)
        else:
            return None
    sig = re.sub(r"\s+", " ", sig).strip()
    return sig, holes


def install(w):
    import duckdb

    H = w.handlers
    Conn = duckdb.DuckDBPyConnection
    w.schemas[Conn] = ClassSchema(Conn, fields={})
    w.ghost_sorts.update(GHOSTS)

    def trace_append(st, sql_term, conn_id):
        n = ghost(st, "$trace_n")
        st.ghost["$trace"] = z3.Store(ghost(st, "$trace"), n, sql_term)
        st.ghost["$trace_c"] = z3.Store(ghost(st, "$trace_c"), n, conn_id)
        st.ghost["$tres"] = z3.Store(ghost(st, "$tres"), n, ghost(st, "$dlast")[conn_id])
        st.ghost["$trace_n"] = n + 1

    def new_result(ex, st, cid):
        r = ex.fresh("duckres", I)
        st.ghost["$dlast"] = z3.Store(ghost(st, "$dlast"), cid, r)
        return r

    def raise_duck(ex, st, cond, cls, node, msg=None):
        """conditional raise of a DuckDB exception whose args[0] is a message string"""
        cs = z3.simplify(cond)
        if z3.is_false(cs):
            return
        r = st.fork()
        r.assume(cs)
        e = ex.new_object(r, cls)
        m = ex.fresh("duckmsg", S) if msg is None else msg
        tup = ex.new_seq_lit(r, tuple, [Val(mks(m), str)])
        r.heap["$exc_args"] = z3.Store(r.arr("$exc_args"), V.rid(e.t), tup.t)
        r.heap["$exc_str"] = z3.Store(r.arr("$exc_str"), V.rid(e.t), mks(m))
        ex.raise_exc(r, e, node)
        st.assume(z3.Not(cs))

    w.raise_duck = raise_duck
    U = lambda v: v  # names reaching the templates are already upper-cased by the caller or are compared upper-cased

    def up(ex, st, v):
        from pyvc.pybuiltins import upper_of

        return upper_of(ex.as_str(st, v))

    # ------------------------------------------------------------------ templates
    def t_exists_catalog(ex, st, cid, holes, node):
        (d,) = holes
        r = new_result(ex, st, cid)
        st.assume(RES_NONEMPTY(r) == ghost(st, "$cats")[ex.as_str(st, d)])

    def t_exists_schema(ex, st, cid, holes, node):
        d, s_ = holes
        r = new_result(ex, st, cid)
        D, S_ = ex.as_str(st, d), ex.as_str(st, s_)
        st.assume(RES_NONEMPTY(r) == z3.And(ghost(st, "$cats")[D], ghost(st, "$schemas")[D][S_]))

    def t_attach(ex, st, cid, holes, node):
        f, d = holes
        D = up(ex, st, d)
        cats = ghost(st, "$cats")
        raise_duck(ex, st, cats[D], duckdb.BinderException, node)  # already attached
        st.ghost["$cats"] = z3.Store(cats, D, z3.BoolVal(True))
        sch = ghost(st, "$schemas")
        st.ghost["$schemas"] = z3.Store(sch, D, z3.Store(z3.Store(z3.K(S, z3.BoolVal(False)), z3.StringVal("MAIN"), z3.BoolVal(True)), z3.StringVal("INFORMATION_SCHEMA"), z3.BoolVal(True)))
        st.ghost["$files"] = z3.Store(ghost(st, "$files"), D, ex.as_str(st, f))
        st.ghost["$boot"] = z3.Store(ghost(st, "$boot"), D, z3.BoolVal(False))
        st.ghost["$macros"] = z3.Store(ghost(st, "$macros"), D, z3.BoolVal(False))
        new_result(ex, st, cid)

    def t_create_schema(ex, st, cid, holes, node):
        d, s_ = holes
        D, S_ = up(ex, st, d), up(ex, st, s_)
        cats, sch = ghost(st, "$cats"), ghost(st, "$schemas")
        raise_duck(ex, st, z3.Not(cats[D]), duckdb.BinderException, node)  # catalog does not exist
        raise_duck(ex, st, sch[D][S_], duckdb.CatalogException, node)  # schema already exists
        st.ghost["$schemas"] = z3.Store(sch, D, z3.Store(sch[D], S_, z3.BoolVal(True)))
        new_result(ex, st, cid)

    def t_set_schema(ex, st, cid, holes, node):
        d, s_ = holes
        D, S_ = up(ex, st, d), up(ex, st, s_)
        cats, sch = ghost(st, "$cats"), ghost(st, "$schemas")
        raise_duck(ex, st, z3.Not(z3.And(cats[D], sch[D][S_])), duckdb.CatalogException, node)
        st.ghost["$search"] = z3.Store(ghost(st, "$search"), cid, z3.Concat(D, z3.StringVal("."), S_))
        new_result(ex, st, cid)

    def t_set_schema_main(ex, st, cid, holes, node):
        (d,) = holes
        return t_set_schema(ex, st, cid, [d, w.const("main")], node)

    def t_timezone(ex, st, cid, holes, node):
        new_result(ex, st, cid)

    def t_status(nrows_cols):
        def h(ex, st, cid, holes, node):
            from .externs_arrow import TBL_NCOLS

            r = new_result(ex, st, cid)
            st.assume(z3.And(RES_ROWS_N(r) == 1, RES_KIND(r) == 2, RES_NCOLS(r) == nrows_cols))

        return h

    TEMPLATES = {
        "SELECT 'Statement executed successfully.' as 'status'": t_status(1),
        "SELECT 'Database {} successfully created.' as 'status'": t_status(1),
        "SELECT 'Schema {} successfully created.' as 'status'": t_status(1),
        "SELECT 'Table {} successfully created.' as 'status'": t_status(1),
        "SELECT 'View {} successfully created.' as 'status'": t_status(1),
        "SELECT '{} successfully dropped.' as 'status'": t_status(1),
        "SELECT {} as 'number of rows inserted'": t_status(1),
        "SELECT {} as 'number of rows updated', 0 as 'number of multi-joined rows updated'": t_status(2),
        "SELECT {} as 'number of rows deleted'": t_status(1),
        "select * from information_schema.schemata where upper(catalog_name) = '{}'": t_exists_catalog,
        "select * from information_schema.schemata where upper(catalog_name) = '{}' and upper(schema_name) = '{}'": t_exists_schema,
        "ATTACH DATABASE '{}' AS {}": t_attach,
        "CREATE SCHEMA {}.{}": t_create_schema,
        "SET schema='{}.{}'": t_set_schema,
        "SET schema='{}.main'": t_set_schema_main,
        "SET GLOBAL TimeZone = 'UTC'": t_timezone,
    }
    w.duck_templates = TEMPLATES

    def sql_tag(v: Val):
        return getattr(v, "sqltag", None) if False else (v.py[1:] if isinstance(v.py, tuple) and v.py and v.py[0] == "sqltag" else None)

    def m_execute(ex, st, args, kw, node):
        ex.trusted_used.add(A)
        conn = args[0]
        sql = args[1]
        cid = ex.as_ref(st, conn, node)
        closed = ghost(st, "$closed")[cid]
        raise_duck(ex, st, closed, duckdb.ConnectionException, node)
        sqlt = ex.as_str(st, sql, node)
        tag = w.sql_tags.get(sql.t.get_id()) if hasattr(w, "sql_tags") else None
        sig = norm_sql(sql.parts)
        if tag is not None:
            kind, dval = tag
            D = up(ex, st, dval)
            cats = ghost(st, "$cats")
            raise_duck(ex, st, z3.Not(cats[D]), duckdb.BinderException, node)
            g = "$boot" if kind == "info_schema" else "$macros"
            st.ghost[g] = z3.Store(ghost(st, g), D, z3.BoolVal(True))
            new_result(ex, st, cid)
        elif sig is not None and sig[0] in TEMPLATES:
            TEMPLATES[sig[0]](ex, st, cid, sig[1], node)
        else:
            if ex.contract is not None and ex.contract.locals.get("$sql_templates_only"):
                # the contract of this function interprets its SQL through the A-DUCK templates; other text cannot be
                # judged deductively (out of reach, decided by the bounded tier) -- never turned into an alarm here
                raise Unsupported("SQL text handed to DuckDB matches no A-DUCK template: " + (sig[0][:80] if sig else "<not a literal skeleton>"), node)
            # generic statement: may fail with any DuckDB error; may change the catalog
            fails = ex.fresh("duck_fails", B)
            # A-DUCK: fakesnow's own status selects (`SELECT '<text>' as 'status'`, `SELECT <n> as 'number of rows ...'`) never fail
            st.assume(z3.Implies(IS_STATUS(sqlt), z3.Not(fails)))
            r = st.fork()
            r.assume(fails)
            e = ex.new_object(r, None, duckdb.Error)
            r.assume(w.classes.isa(CLS(V.rid(e.t)), duckdb.Error))
            m = ex.fresh("duckmsg", S)
            tup = ex.new_seq_lit(r, tuple, [Val(mks(m), str)])
            r.heap["$exc_args"] = z3.Store(r.arr("$exc_args"), V.rid(e.t), tup.t)
            r.heap["$exc_str"] = z3.Store(r.arr("$exc_str"), V.rid(e.t), mks(m))
            # A-DUCK 1: 'cannot commit/rollback - no transaction is active' is only ever the answer to COMMIT / ROLLBACK
            no_tx = z3.Or(z3.Contains(m, z3.StringVal("cannot rollback - no transaction is active")), z3.Contains(m, z3.StringVal("cannot commit - no transaction is active")))
            r.assume(z3.Implies(z3.And(w.classes.isa(CLS(V.rid(e.t)), duckdb.TransactionException), no_tx), z3.And(z3.Not(DUCK_DML(sqlt)), DUCK_TXN_END(sqlt), z3.Not(z3.PrefixOf(z3.StringVal("SELECT "), sqlt)))))
            # a failed statement changes nothing in DuckDB (statement-level atomicity, A-DUCK)
            ex.raise_exc(r, e, node)
            st.assume(z3.Not(fails))
            # catalog ghosts: unknown after an arbitrary statement, unchanged after one of fakesnow's status selects
            for g in ("$cats", "$schemas", "$files", "$boot", "$macros"):
                st.ghost[g] = z3.If(IS_STATUS(sqlt), ghost(st, g), ex.fresh(f"g_{g}", GHOSTS[g]))
            st.ghost["$search"] = z3.If(IS_STATUS(sqlt), ghost(st, "$search"), z3.Store(ghost(st, "$search"), cid, ex.fresh("search", S)))
            r_ = new_result(ex, st, cid)
            st.assume(z3.Implies(IS_STATUS(sqlt), z3.And(RES_ROWS_N(r_) == 1, RES_KIND(r_) == 2)))
            st.assume(z3.Implies(IS_STATUS(sqlt), z3.Not(DUCK_DML(sqlt))))
            # A-DUCK 2: a successful INSERT/UPDATE/DELETE yields one row holding the affected-row count
            st.assume((RES_KIND(r_) == 1) == DUCK_DML(sqlt))
            st.assume(z3.Implies(ATTACHED_DB(sqlt) != z3.StringVal(""), st.ghost["$cats"][UPPER(ATTACHED_DB(sqlt))]))
        trace_append(st, sqlt, cid)
        return conn

    H["duckdb.duckdb.DuckDBPyConnection.execute"] = m_execute

    def m_fetchone(ex, st, args, kw, node):
        ex.trusted_used.add(A)
        cid = ex.as_ref(st, args[0], node)
        r = ghost(st, "$dlast")[cid]
        row = ex.new_object(st, tuple, TupleT(elem=None))
        st.heap["$len"] = z3.Store(st.arr("$len"), V.rid(row.t), ex.fresh("ncols", I))
        st.assume(st.arr("$len")[V.rid(row.t)] >= 1)  # a result row has at least one column
        return Val(z3.If(RES_NONEMPTY(r), row.t, NONE), Opt(TupleT(elem=None)))

    H["duckdb.duckdb.DuckDBPyConnection.fetchone"] = m_fetchone

    def m_fetchall(ex, st, args, kw, node):
        """rows of the last result; for a DML statement exactly one row with one column: the affected count (A-DUCK 2)"""
        ex.trusted_used.add(A)
        cid = ex.as_ref(st, args[0], node)
        r = ghost(st, "$dlast")[cid]
        n = RES_ROWS_N(r)
        st.assume(n >= 0)
        rowid = z3.Function(fresh_name("duckrow"), I, I)
        j, j2 = z3.Ints(fresh_name("fr") + " " + fresh_name("fr2"))
        a1 = ex.alloc_term(st)
        ex.bump_alloc(st)
        a2 = ex.alloc_term(st)
        rng = z3.And(j >= 0, j < n)
        st.assume(z3.ForAll([j], z3.Implies(rng, z3.And(rowid(j) >= a1, rowid(j) < a2, CLS(rowid(j)) == w.classes.cid(tuple)))))
        st.assume(z3.ForAll([j, j2], z3.Implies(z3.And(rng, j2 >= 0, j2 < n, j != j2), rowid(j) != rowid(j2))))
        # new length/element arrays for the fresh row tuples
        o = z3.Int(fresh_name("fo"))
        for nm in ("$len", "$el"):
            old = st.arr(nm)
            new = ex.fresh(f"H_{nm}", old.sort())
            st.assume(z3.ForAll([o], z3.Implies(o < a1, new[o] == old[o])))
            st.heap[nm] = new
        # DML result: one row, one column holding the count
        dml = RES_KIND(r) == 1
        st.assume(z3.Implies(dml, z3.And(n == 1, st.heap["$len"][rowid(0)] == 1, st.heap["$el"][rowid(0)][0] == RES_COUNT(r), V.is_i(RES_COUNT(r)), V.ival(RES_COUNT(r)) >= 0)))
        return ex.new_seq(st, list, n, z3.Lambda([j], mkr(rowid(j))), elem=TupleT(elem=None))

    H["duckdb.duckdb.DuckDBPyConnection.fetchall"] = m_fetchall

    def m_fetch_arrow_table(ex, st, args, kw, node):
        import pyarrow as pa

        from .externs_arrow import TBL_NROWS, wf_table

        ex.trusted_used.add(A)
        cid = ex.as_ref(st, args[0], node)
        r = ghost(st, "$dlast")[cid]
        t = ex.new_object(st, pa.Table)
        tid = V.rid(t.t)
        st.assume(RES_TABLE(r) == tid) if False else None
        st.assume(wf_table(tid))
        st.assume(TBL_NROWS(tid) == RES_ROWS_N(r))
        st.assume(RES_ROWS_N(r) >= 0)
        return t

    H["duckdb.duckdb.DuckDBPyConnection.fetch_arrow_table"] = m_fetch_arrow_table

    DUCK_PARENT = z3.Function("duck_parent", I, I)

    def m_cursor(ex, st, args, kw, node):
        """a new connection object on the same instance with its own search path and transaction (A-DUCK 4)"""
        ex.trusted_used.add(A)
        cid = ex.as_ref(st, args[0], node)
        c = ex.new_object(st, Conn)
        nid = V.rid(c.t)
        st.assume(DUCK_PARENT(nid) == cid)
        st.ghost["$closed"] = z3.Store(ghost(st, "$closed"), nid, z3.BoolVal(False))
        st.ghost["$search"] = z3.Store(ghost(st, "$search"), nid, z3.StringVal(""))
        return c

    H["duckdb.duckdb.DuckDBPyConnection.cursor"] = m_cursor

    def m_close(ex, st, args, kw, node):
        ex.trusted_used.add(A)
        cid = ex.as_ref(st, args[0], node)
        st.ghost["$closed"] = z3.Store(ghost(st, "$closed"), cid, z3.BoolVal(True))
        return Val(NONE, NoneType)

    H["duckdb.duckdb.DuckDBPyConnection.close"] = m_close

    # str(duckdb exception) == its message
    def exc_str(ex, st, args, kw, node):
        oid = ex.as_ref(st, args[0], node)
        return Val(st.arr("$exc_str")[oid], str)

    w.exc_str = exc_str

    # ---------------------------------------------------------------------- spec functions
    def sf(name):
        def deco(f):
            w.specfuns[name] = SpecFun(name, f)
            return f

        return deco

    @sf("duck_dml")
    def _duck_dml(ex, st, args):
        return Val(mkb(DUCK_DML(V.sval(args[0].t))), bool)

    @sf("duck_txn_end")
    def _duck_txn_end(ex, st, args):
        return Val(mkb(DUCK_TXN_END(V.sval(args[0].t))), bool)

    @sf("attaches")
    def _attaches(ex, st, args):
        return Val(mkb(z3.And(ATTACHED_DB(V.sval(args[0].t)) == V.sval(args[1].t), V.sval(args[1].t) != z3.StringVal(""))), bool)

    @sf("last_result_count")
    def _last_result_count(ex, st, args):
        """first cell of the result of statement number k of the trace (defined for DML results)"""
        return Val(RES_COUNT(ghost(st, "$tres")[ex.as_int(st, args[0])]), None)

    @sf("exc_message")
    def _exc_message(ex, st, args):
        return Val(st.arr("$exc_str")[V.rid(args[0].t)], str)

    @sf("result_count")
    def _result_count(ex, st, args):
        """affected-row count reported by DuckDB for statement number k of the trace (A-DUCK 2)"""
        return Val(RES_COUNT(ghost(st, "$tres")[ex.as_int(st, args[0])]), None)

    @sf("result_rows")
    def _result_rows(ex, st, args):
        return Val(mki(RES_ROWS_N(ghost(st, "$tres")[ex.as_int(st, args[0])])), int)

    @sf("cat_exists")
    def _cat_exists(ex, st, args):
        return Val(mkb(ghost(st, "$cats")[V.sval(args[0].t)]), bool)

    @sf("schema_exists")
    def _schema_exists(ex, st, args):
        D, S_ = V.sval(args[0].t), V.sval(args[1].t)
        return Val(mkb(z3.And(ghost(st, "$cats")[D], ghost(st, "$schemas")[D][S_])), bool)

    @sf("cats_same_except")
    def _cats_same_except(ex, st, args):
        """catalog set now == catalog set before, except possibly for name args[0]"""
        pre = ex.spec.old
        x = z3.String(fresh_name("cx"))
        return Val(mkb(z3.ForAll([x], z3.Implies(x != V.sval(args[0].t), ghost(st, "$cats")[x] == ghost(pre, "$cats")[x]))), bool)

    @sf("schemas_same_except")
    def _schemas_same_except(ex, st, args):
        pre = ex.spec.old
        x, y = z3.String(fresh_name("sx")), z3.String(fresh_name("sy"))
        D, S_ = V.sval(args[0].t), V.sval(args[1].t)
        return Val(
            mkb(
                z3.ForAll(
                    [x, y],
                    z3.Implies(
                        z3.And(ghost(pre, "$cats")[x], z3.Not(z3.And(x == D, y == S_))),
                        ghost(st, "$schemas")[x][y] == ghost(pre, "$schemas")[x][y],
                    ),
                )
            ),
            bool,
        )

    @sf("search_of")
    def _search_of(ex, st, args):
        return Val(mks(ghost(st, "$search")[V.rid(args[0].t)]), str)

    @sf("duck_closed")
    def _duck_closed(ex, st, args):
        return Val(mkb(ghost(st, "$closed")[V.rid(args[0].t)]), bool)

    @sf("file_of")
    def _file_of(ex, st, args):
        return Val(mks(ghost(st, "$files")[V.sval(args[0].t)]), str)

    @sf("bootstrapped")
    def _bootstrapped(ex, st, args):
        D = V.sval(args[0].t)
        return Val(mkb(z3.And(ghost(st, "$boot")[D], ghost(st, "$macros")[D])), bool)

    @sf("bootstrapped_info")
    def _bootstrapped_info(ex, st, args):
        return Val(mkb(ghost(st, "$boot")[V.sval(args[0].t)]), bool)

    @sf("trace_len")
    def _trace_len(ex, st, args):
        return Val(mki(ghost(st, "$trace_n")), int)

    @sf("trace_at")
    def _trace_at(ex, st, args):
        return Val(mks(ghost(st, "$trace")[ex.as_int(st, args[0])]), str)

    @sf("trace_conn_at")
    def _trace_conn_at(ex, st, args):
        return Val(mkr(ghost(st, "$trace_c")[ex.as_int(st, args[0])]), None)

    @sf("duck_parent")
    def _duck_parent(ex, st, args):
        return Val(mkr(DUCK_PARENT(V.rid(args[0].t))), None)
