"""World construction: class universe, schemas, helper constructors for contracts."""
from __future__ import annotations

import sys

import z3

from pyvc import pybuiltins
from pyvc.sorts import CLS, I, S, V, mkb, mki, mkr, mks
from pyvc.state import Val
from pyvc.types import DictT, ListT, NoneType, Opt, SetT, TupleT
from pyvc.world import ClassSchema, Contract, SpecFun, World


def build_world(repo_root="/repo") -> World:
    if repo_root not in sys.path:
        sys.path.insert(0, repo_root)
    # make sure `fakesnow` resolves to repo_root even if another copy was imported
    for k in [k for k in sys.modules if k == "fakesnow" or k.startswith("fakesnow.")]:
        del sys.modules[k]
    w = World(repo_root)
    import duckdb
    import pyarrow as pa
    import snowflake.connector.errors as sferr
    from sqlglot import exp

    import fakesnow  # noqa: F401
    import fakesnow.conn
    import fakesnow.cursor
    import fakesnow.instance
    import fakesnow.variables

    for c in (object, int, bool, str, NoneType, list, tuple, dict, set, frozenset):
        w.classes.add(c)
    w.classes.add_tree(BaseException)
    w.classes.add_tree(exp.Expression)
    for c in (
        pa.Table,
        pa.ChunkedArray,
        duckdb.DuckDBPyConnection,
        fakesnow.cursor.FakeSnowflakeCursor,
        fakesnow.conn.FakeSnowflakeConnection,
        fakesnow.instance.FakeSnow,
        fakesnow.variables.Variables,
    ):
        w.classes.add(c)
    pybuiltins.install(w)
    from pyvc.sorts import LOWER, UPPER

    _s = z3.String("ax_s")
    # str.upper / str.lower are idempotent (the only facts about them used besides their value on literals)
    w.axioms.append(z3.ForAll([_s], UPPER(UPPER(_s)) == UPPER(_s), patterns=[UPPER(UPPER(_s))]))
    w.axioms.append(z3.ForAll([_s], LOWER(LOWER(_s)) == LOWER(_s), patterns=[LOWER(LOWER(_s))]))
    # ... and map the empty string, and only it, to the empty string
    w.axioms.append(z3.ForAll([_s], (z3.Length(UPPER(_s)) == 0) == (z3.Length(_s) == 0), patterns=[UPPER(_s)]))
    w.axioms.append(z3.ForAll([_s], (z3.Length(LOWER(_s)) == 0) == (z3.Length(_s) == 0), patterns=[LOWER(_s)]))
    from . import externs_arrow, externs_duck, externs_misc, externs_sqlglot

    externs_misc.install(w)
    externs_misc.install_more(w)
    externs_arrow.install(w)
    externs_duck.install(w)
    externs_sqlglot.install(w)
    from . import c_checks, c_cli, c_conn, c_cursor, c_cursor_exec, c_info_schema, c_server, c_types, c_variables

    for m in (c_cursor, c_cli, c_types, c_server, c_checks, c_conn, c_variables, c_info_schema, c_cursor_exec):
        m.install(w)
    return w


def specfun(w: World, name, result=None):
    def deco(f):
        w.specfuns[name] = SpecFun(name, f, None, result)
        return f

    return deco
