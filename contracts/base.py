"""World construction: class universe, schemas, helper constructors for contracts."""
from __future__ import annotations

import sys

import z3

from pyvc import pybuiltins
from pyvc.sorts import CLS, I, S, V, mkb, mki, mkr, mks
from pyvc.state import Val
from pyvc.types import DictT, ListT, NoneType, Opt, SetT, TupleT
from pyvc.world import ClassSchema, Contract, SpecFun, World


def build_world(repo_root="/repo") -> World:
    if repo_root not in sys.path:
        sys.path.insert(0, repo_root)
    # make sure `fakesnow` resolves to repo_root even if another copy was imported
    for k in [k for k in sys.modules if k == "fakesnow" or k.startswith("fakesnow.")]:
        del sys.modules[k]
    w = World(repo_root)
    import duckdb
    import pyarrow as pa
    import snowflake.connector.errors as sferr
    from sqlglot import exp

    import fakesnow  # noqa: F401
    import fakesnow.conn
    import fakesnow.cursor
    import fakesnow.instance
    import fakesnow.variables

    for c in (object, int, bool, str, NoneType, list, tuple, dict, set, frozenset):
        w.classes.add(c)
    w.classes.add_tree(BaseException)
    w.classes.add_tree(exp.Expression)
    for c in (
        pa.Table,
        pa.ChunkedArray,
        duckdb.DuckDBPyConnection,
        fakesnow.cursor.FakeSnowflakeCursor,
        fakesnow.conn.FakeSnowflakeConnection,
        fakesnow.instance.FakeSnow,
        fakesnow.variables.Variables,
    ):
        w.classes.add(c)
    pybuiltins.install(w)
    from pyvc.sorts import B as _B, I as _I, S as _S, V as _V

    w.ghost_sorts.update({"$cl_n": _I, "$cl_tag": z3.ArraySort(_I, _S), "$cl_a1": z3.ArraySort(_I, _V), "$cl_a2": z3.ArraySort(_I, _V), "$cl_res": z3.ArraySort(_I, _V)})

    def _sfd(name):
        def deco(f):
            w.specfuns[name] = SpecFun(name, f)
            return f

        return deco

    w.ghost_sorts.update({"$ex_n": _I, "$ex_cmd": z3.ArraySort(_I, _V), "$ex_par": z3.ArraySort(_I, _V)})

    @_sfd("execs")
    def _execs(ex, st, args):
        return Val(mki(ex.gh(st, "$ex_n")), int)

    @_sfd("exec_cmd")
    def _exec_cmd(ex, st, args):
        return Val(ex.gh(st, "$ex_cmd")[ex.as_int(st, args[0])], None)

    @_sfd("exec_params")
    def _exec_params(ex, st, args):
        return Val(ex.gh(st, "$ex_par")[ex.as_int(st, args[0])], None)

    @_sfd("tx_before")
    def _tx_before(ex, st, args):
        """in the pipeline segment [lo, hi): some application of `a` precedes every application of `b` (and a occurs)"""
        lo, hi = ex.as_int(st, args[0]), ex.as_int(st, args[1])
        names = ex.gh(st, "$tx_name")
        a_, b_ = V.sval(args[2].t), V.sval(args[3].t)
        # the pipeline built by straight-line code is a literal Store chain over lo+k: decide it by reading it off
        seq = {}
        t = names
        ok = True
        while z3.is_app(t) and t.decl().kind() == z3.Z3_OP_STORE:
            k = z3.simplify(t.arg(1) - lo)
            v = z3.simplify(t.arg(2))
            if not (z3.is_int_value(k) and z3.is_string_value(v)):
                ok = False
                break
            seq.setdefault(k.as_long(), v.as_string())
            t = t.arg(0)
        n_ = z3.simplify(hi - lo)
        sa, sb = z3.simplify(a_), z3.simplify(b_)
        if ok and z3.is_int_value(n_) and z3.is_string_value(sa) and z3.is_string_value(sb) and all(k in seq for k in range(n_.as_long())):
            order = [seq[k] for k in range(n_.as_long())]
            ia = [k for k, x in enumerate(order) if x == sa.as_string()]
            ib = [k for k, x in enumerate(order) if x == sb.as_string()]
            return Val(mkb(bool(ia) and all(ia[0] < k for k in ib)), bool)
        i, j = z3.Ints("txb_i txb_j")
        return Val(mkb(z3.Exists([i], z3.And(i >= lo, i < hi, names[i] == a_, z3.ForAll([j], z3.Implies(z3.And(j >= lo, j < hi, names[j] == b_), i < j))))), bool)

    @_sfd("tx_applied")
    def _tx_applied(ex, st, args):
        """some application of transform `name` in [lo, hi) got `arg` as its first extra argument"""
        lo, hi = ex.as_int(st, args[0]), ex.as_int(st, args[1])
        i = z3.Int("txa_i")
        return Val(mkb(z3.Exists([i], z3.And(i >= lo, i < hi, ex.gh(st, "$tx_name")[i] == V.sval(args[2].t), ex.gh(st, "$tx_a1")[i] == args[3].t))), bool)

    @_sfd("calls")
    def _calls(ex, st, args):
        return Val(mki(ex.gh(st, "$cl_n")), int)

    @_sfd("call_tag")
    def _call_tag(ex, st, args):
        return Val(mks(ex.gh(st, "$cl_tag")[ex.as_int(st, args[0])]), str)

    @_sfd("call_arg1")
    def _call_arg1(ex, st, args):
        return Val(ex.gh(st, "$cl_a1")[ex.as_int(st, args[0])], None)

    @_sfd("call_arg2")
    def _call_arg2(ex, st, args):
        return Val(ex.gh(st, "$cl_a2")[ex.as_int(st, args[0])], None)

    @_sfd("call_res")
    def _call_res(ex, st, args):
        return Val(ex.gh(st, "$cl_res")[ex.as_int(st, args[0])], None)
    from pyvc.sorts import LOWER, UPPER

    _s = z3.String("ax_s")
    # str.upper / str.lower are idempotent (the only facts about them used besides their value on literals)
    w.axioms.append(z3.ForAll([_s], UPPER(UPPER(_s)) == UPPER(_s), patterns=[UPPER(UPPER(_s))]))
    w.axioms.append(z3.ForAll([_s], LOWER(LOWER(_s)) == LOWER(_s), patterns=[LOWER(LOWER(_s))]))
    # ... and map the empty string, and only it, to the empty string
    w.axioms.append(z3.ForAll([_s], (z3.Length(UPPER(_s)) == 0) == (z3.Length(_s) == 0), patterns=[UPPER(_s)]))
    w.axioms.append(z3.ForAll([_s], (z3.Length(LOWER(_s)) == 0) == (z3.Length(_s) == 0), patterns=[LOWER(_s)]))
    from . import externs_arrow, externs_duck, externs_misc, externs_sqlglot

    externs_misc.install(w)
    externs_misc.install_more(w)
    externs_misc.install_sfc(w)
    externs_arrow.install(w)
    externs_duck.install(w)
    externs_sqlglot.install(w)
    from . import c_checks, c_cli, c_conn, c_cursor, c_cursor_exec, c_info_schema, c_merge, c_server, c_transforms, c_types, c_variables

    for m in (c_cursor, c_cli, c_types, c_server, c_checks, c_conn, c_variables, c_info_schema, c_cursor_exec):
        m.install(w)
    c_conn.install_methods(w)
    c_cursor_exec.install_execute(w)
    c_cursor_exec.install_execute2(w)
    c_cursor_exec.install_describe(w)
    c_merge.install(w)
    c_transforms.install(w)
    from . import c_transforms2

    c_transforms2.install(w)
    c_variables.install_methods(w)
    return w


def specfun(w: World, name, result=None):
    def deco(f):
        w.specfuns[name] = SpecFun(name, f, None, result)
        return f

    return deco
