"""A-SQLGLOT: assumed contracts of the sqlglot 25.24.5 calls and properties used by the functions under contract.

Nodes are heap objects whose class is the real sqlglot class (class table built from sqlglot.expressions); `args` is
a dict object; `parent` a field.  Properties (`this`, `expression`, `expressions`, `name`, `db`, `catalog`, `alias`,
`is_string`, `quoted`, `key`, `left`, `right`, `unit`, `to`) are encoded from their definitions in
sqlglot/expressions.py (read with inspect while writing this file; A-SQLGLOT 4).  Tree searches (`find`, `find_all`,
`find_ancestor`) are uninterpreted per (node, classes, order, args-heap) with the result-type facts only.
"""
from __future__ import annotations

import z3

from pyvc.sorts import B, CLS, I, KEY, NONE, S, V, mkb, mki, mkr, mks
from pyvc.state import SeqView, Val, arr_lit, fresh_name
from pyvc.types import DictT, ListT, NoneType, Opt, TupleT
from pyvc.world import ClassSchema, SpecFun, Unsupported

A = "A-SQLGLOT (sqlglot 25.24.5: Expression.args/parent/this/expression(s)/name/db/catalog/alias/text/find/find_all/copy/set/transform/sql as defined in sqlglot/expressions.py)"

FIND = None  # set in install (needs array sorts)


def install(w):
    import sqlglot
    from sqlglot import exp

    E = exp.Expression
    H = w.handlers
    w.duck_class = E
    w.duck_attrs = {"this", "expression", "expressions", "args", "name", "sql", "find", "find_all", "find_ancestor", "copy", "set", "alias", "db", "catalog", "is_string", "parent", "key", "replace", "transform", "left", "right", "unit", "to", "text", "alias_or_name"}
    w.schemas[E] = ClassSchema(E, fields={"args": DictT(str, None), "parent": Opt(E), "arg_key": Opt(str)}, truthy=None)

    # statement-level classes whose `key` is compared with literals or shown in messages
    KEY_CLASSES = [
        exp.Use, exp.Command, exp.Create, exp.Drop, exp.Insert, exp.Update, exp.Delete, exp.Merge, exp.Select, exp.Describe,
        exp.Alter, exp.Set, exp.Show, exp.Comment, exp.TruncateTable, exp.Transaction, exp.Commit, exp.Rollback, exp.Alias,
        exp.Copy, exp.Union, exp.Values, exp.With, exp.Subquery, exp.Table, exp.Schema, exp.Identifier, exp.Column,
    ]
    w.key_classes = KEY_CLASSES

    from pyvc.sorts import UPPER

    def key_facts(c):
        fs = []
        for K in KEY_CLASSES:
            fs.append((c == w.classes.cid(K)) == (KEY(c) == z3.StringVal(K.key)))
            fs.append(UPPER(z3.StringVal(K.key)) == z3.StringVal(K.key.upper()))
        return z3.And(fs)

    def prop(name, cls=E):
        def deco(f):
            w.attr_handlers[(cls, name)] = f
            return f

        return deco

    def args_of(ex, st, obj):
        oid = V.rid(obj.t)
        d = Val(st.arr("args")[oid], DictT(str, None))
        st.assume(ex.type_pred(d.t, d.ty))
        ex.assume_allocated(st, d.t)
        return d

    def arg_get(ex, st, obj, key: str, hint=None) -> Val:
        if isinstance(obj.py, E):
            # a module-level constant tree (e.g. transforms.SUCCESS_NOP): read from the real object
            return real_const(obj.py.args.get(key))
        d = args_of(ex, st, obj)
        did = V.rid(d.t)
        k = mks(key)
        v = Val(z3.If(st.arr("$dhas")[did][k], st.arr("$dmap")[did][k], NONE), hint)
        ex.assume_allocated(st, v.t)
        return v

    w.sg_arg_get = arg_get
    _known = set()

    def real_const(x):
        v = w.const(x)
        if isinstance(x, E) and id(x) not in _known:
            _known.add(id(x))
            w.axioms.append(CLS(V.rid(v.t)) == w.classes.cid(type(x)))
        return v

    w.real_const = real_const
    _orig_const = w.const

    def const_with_class(x):
        v = _orig_const(x)
        if isinstance(x, E) and id(x) not in _known:
            _known.add(id(x))
            w.axioms.append(CLS(V.rid(v.t)) == w.classes.cid(type(x)))
        return v

    w.const = const_with_class

    @prop("this")
    def _this(ex, st, obj, node):
        ex.trusted_used.add(A)
        return arg_get(ex, st, obj, "this")

    @prop("expression")
    def _expression(ex, st, obj, node):
        ex.trusted_used.add(A)
        return arg_get(ex, st, obj, "expression")

    @prop("expressions")
    def _expressions(ex, st, obj, node):
        ex.trusted_used.add(A)
        v = arg_get(ex, st, obj, "expressions")
        # `args.get("expressions") or []`: a list either way (field shape: list or absent, A-SQLGLOT 1)
        st.assume(z3.Or(V.is_none(v.t), ex.type_pred(v.t, ListT(None))))
        empty = ex.new_seq_lit(st, list, [])
        return Val(z3.If(ex.truthy(st, Val(v.t, Opt(ListT(None)))), v.t, empty.t), ListT(None))

    @prop("key")
    def _key(ex, st, obj, node):
        ex.trusted_used.add(A)
        c = CLS(V.rid(obj.t))
        st.assume(key_facts(c))
        return Val(mks(KEY(c)), str)

    def text_of(ex, st, obj, key):
        """Expression.text(key)"""
        f = arg_get(ex, st, obj, key)
        t = f.t
        isleaf = z3.And(V.is_r(t), w.classes.isa(CLS(V.rid(t)), (exp.Identifier, exp.Literal, exp.Var)))
        inner = arg_get(ex, st, Val(t, E), "this")
        isstar = z3.And(V.is_r(t), w.classes.isa(CLS(V.rid(t)), (exp.Star, exp.Null)))
        star_name = z3.Function("sg_star_name", I, S)
        out = z3.If(
            V.is_s(t),
            V.sval(t),
            z3.If(z3.And(isleaf, V.is_s(inner.t)), V.sval(inner.t), z3.If(isstar, star_name(V.rid(t)), z3.StringVal(""))),
        )
        # Identifier/Literal/Var `.this` is a str (A-SQLGLOT 1); otherwise python would return the non-str object
        st.assume(z3.Implies(isleaf, V.is_s(inner.t)))
        return out

    @prop("name")
    def _name(ex, st, obj, node):
        ex.trusted_used.add(A)
        c = CLS(V.rid(obj.t))
        generic = text_of(ex, st, obj, "this")
        # Table.name: "" if this is a Func (or missing) else this.name
        this = arg_get(ex, st, obj, "this")
        this_is_node = z3.And(V.is_r(this.t), w.classes.isa(CLS(V.rid(this.t)), E))
        tbl = z3.If(
            z3.Or(z3.Not(this_is_node), w.classes.isa(CLS(V.rid(this.t)), exp.Func)),
            z3.StringVal(""),
            text_of(ex, st, Val(this.t, E), "this"),
        )
        return Val(mks(z3.If(w.classes.isa(c, exp.Table), tbl, generic)), str)

    @prop("db")
    def _db(ex, st, obj, node):
        ex.trusted_used.add(A)
        return Val(mks(text_of(ex, st, obj, "db")), str)

    @prop("catalog")
    def _catalog(ex, st, obj, node):
        ex.trusted_used.add(A)
        return Val(mks(text_of(ex, st, obj, "catalog")), str)

    @prop("alias")
    def _alias(ex, st, obj, node):
        ex.trusted_used.add(A)
        a = arg_get(ex, st, obj, "alias")
        is_ta = z3.And(V.is_r(a.t), w.classes.isa(CLS(V.rid(a.t)), exp.TableAlias))
        return Val(mks(z3.If(is_ta, text_of(ex, st, Val(a.t, E), "this"), text_of(ex, st, obj, "alias"))), str)

    @prop("is_string")
    def _is_string(ex, st, obj, node):
        ex.trusted_used.add(A)
        isl = w.classes.isa(CLS(V.rid(obj.t)), exp.Literal)
        v = arg_get(ex, st, obj, "is_string")
        # python returns args["is_string"] itself (a bool for literals, A-SQLGLOT 1)
        st.assume(z3.Implies(isl, V.is_b(v.t)))
        return Val(mkb(z3.And(isl, V.bval(v.t))), bool)

    @prop("quoted", exp.Identifier)
    def _quoted(ex, st, obj, node):
        ex.trusted_used.add(A)
        v = arg_get(ex, st, obj, "quoted")
        return Val(mkb(ex.truthy(st, v)), bool)

    @prop("left", exp.Binary)
    def _left(ex, st, obj, node):
        return arg_get(ex, st, obj, "this")

    @prop("right", exp.Binary)
    def _right(ex, st, obj, node):
        return arg_get(ex, st, obj, "expression")

    @prop("unit")
    def _unit(ex, st, obj, node):
        return arg_get(ex, st, obj, "unit", Opt(E))

    @prop("to")
    def _to(ex, st, obj, node):
        return arg_get(ex, st, obj, "to", exp.DataType)

    def sf(name):
        def deco(f):
            w.specfuns[name] = SpecFun(name, f)
            return f

        return deco

    # ------------------------------------------------------------------ tree searches
    ARR = z3.ArraySort(I, V)
    DM = z3.ArraySort(I, z3.ArraySort(V, V))
    find_fn = {}

    w.ghost_sorts["$treever"] = I

    def treever(ex, st, node_val):
        """version of the node heap: tree searches and generated SQL depend on (node, version) -- every write to a
        dict / args / parent field moves to a new version (see Executor.bump_treever); constant trees are version 0"""
        if isinstance(node_val.py, E):
            return z3.IntVal(0)
        return ex.gh(st, "$treever")

    def find_like(tag, ex, st, recv, classes, bfs):
        if isinstance(recv.py, E) and tag == "find":
            return real_const(recv.py.find(*classes, bfs=bfs))
        """uninterpreted search result with the type facts; depends on the node, the class set, the order and the
        current args contents (so a mutation of the tree invalidates earlier results)"""
        key = (tag, tuple(w.classes.cid(c) for c in classes), bfs)
        f = find_fn.get(key)
        if f is None:
            f = z3.Function(f"sg_{tag}_{len(find_fn)}", I, I, V)
            find_fn[key] = f
        r = f(V.rid(recv.t), treever(ex, st, recv))
        ok = z3.Or(V.is_none(r), z3.And(V.is_r(r), w.classes.isa(CLS(V.rid(r)), tuple(classes) if len(classes) > 1 else classes[0])))
        st.assume(ok)
        hint = Opt(classes[0]) if len(classes) == 1 else Opt(E)
        v = Val(r, hint)
        ex.assume_allocated(st, r)
        return v

    def m_find(ex, st, args, kw, node):
        ex.trusted_used.add(A)
        recv = args[0]
        classes = []
        for c in args[1:]:
            classes.extend(ex._classes_of(c, node))
        bfs = True
        if "bfs" in kw:
            from pyvc.spec import _NO, concrete_of

            b = concrete_of(kw["bfs"])
            if b is _NO:
                raise Unsupported("find(bfs=<non-literal>)", node)
            bfs = bool(b)
        if isinstance(recv.py, E):
            return real_const(recv.py.find(*classes, bfs=bfs))
        ex.as_ref(st, recv, node, "find receiver")
        r = find_like("find", ex, st, recv, classes, bfs)
        # a node is found in its own tree first: if the receiver itself matches, it is the result (pre-order/BFS root first)
        self_match = w.classes.isa(CLS(V.rid(recv.t)), tuple(classes) if len(classes) > 1 else classes[0])
        st.assume(z3.Implies(self_match, r.t == recv.t))
        return r

    H["sqlglot.expressions.Expression.find"] = m_find

    def m_find_ancestor(ex, st, args, kw, node):
        ex.trusted_used.add(A)
        recv = args[0]
        classes = []
        for c in args[1:]:
            classes.extend(ex._classes_of(c, node))
        ex.as_ref(st, recv, node, "find_ancestor receiver")
        f = z3.Function("sg_find_ancestor_" + "_".join(str(w.classes.cid(c)) for c in classes), I, I, V)
        r = f(V.rid(recv.t), treever(ex, st, recv))
        st.assume(z3.Or(V.is_none(r), z3.And(V.is_r(r), w.classes.isa(CLS(V.rid(r)), tuple(classes) if len(classes) > 1 else classes[0]))))
        return Val(r, Opt(classes[0]) if len(classes) == 1 else Opt(E))

    H["sqlglot.expressions.Expression.find_ancestor"] = m_find_ancestor

    def m_find_all(ex, st, args, kw, node):
        ex.trusted_used.add(A)
        recv = args[0]
        classes = []
        for c in args[1:]:
            classes.extend(ex._classes_of(c, node))
        ex.as_ref(st, recv, node, "find_all receiver")
        n = ex.fresh("find_all_n", I)
        arr = ex.fresh("find_all_el", ARR)
        st.assume(n >= 0)
        j = z3.Int(fresh_name("fa"))
        st.assume(z3.ForAll([j], z3.Implies(z3.And(j >= 0, j < n), z3.And(V.is_r(arr[j]), w.classes.isa(CLS(V.rid(arr[j])), tuple(classes) if len(classes) > 1 else classes[0])))))
        return ex.new_seq(st, list, n, arr, elem=classes[0] if len(classes) == 1 else E)

    H["sqlglot.expressions.Expression.find_all"] = m_find_all

    # ------------------------------------------------------------------ construction / mutation
    def construct_node(ex, st, cls, args, kw, node):
        ex.trusted_used.add(A)
        if args:
            raise Unsupported("positional args to an Expression constructor", node)
        obj = ex.new_object(st, cls)
        oid = V.rid(obj.t)
        d = ex.new_object(st, dict, DictT(str, None))
        did = V.rid(d.t)
        has = z3.K(V, z3.BoolVal(False))
        mp = st.arr("$dmap")[did]
        keys = []
        for k, v in kw.items():
            has = z3.Store(has, mks(k), z3.BoolVal(True))
            mp = z3.Store(mp, mks(k), v.t)
            keys.append(mks(k))
            # _set_parent: nodes get their parent pointer; lists of nodes too (not modelled for list elements)
            if v.ty is not None and isinstance(v.ty, type) and issubclass(v.ty, E):
                st.heap["parent"] = z3.Store(st.arr("parent"), V.rid(v.t), obj.t)
            elif v.ty is None or isinstance(v.ty, Opt):
                isn = z3.And(V.is_r(v.t), w.classes.isa(CLS(V.rid(v.t)), E))
                par = st.arr("parent")
                st.heap["parent"] = z3.If(isn, z3.Store(par, V.rid(v.t), obj.t), par)
        st.heap["$dhas"] = z3.Store(st.arr("$dhas"), did, has)
        st.heap["$dmap"] = z3.Store(st.arr("$dmap"), did, mp)
        st.heap["$klen"] = z3.Store(st.arr("$klen"), did, z3.IntVal(len(keys)))
        st.heap["$kel"] = z3.Store(st.arr("$kel"), did, arr_lit(keys))
        st.heap["args"] = z3.Store(st.arr("args"), oid, d.t)
        st.heap["parent"] = z3.Store(st.arr("parent"), oid, NONE)
        return obj

    H["sqlglot.expressions.Expression.__new__*"] = construct_node

    def lit_string(ex, st, args, kw, node):
        s_ = args[-1]
        return construct_node(ex, st, exp.Literal, [], {"this": Val(mks(ex.str_of(st, s_, node)), str), "is_string": w.const(True)}, node)

    def lit_number(ex, st, args, kw, node):
        s_ = args[-1]
        return construct_node(ex, st, exp.Literal, [], {"this": Val(mks(ex.str_of(st, s_, node)), str), "is_string": w.const(False)}, node)

    H["sqlglot.expressions.Literal.string"] = lit_string
    H["sqlglot.expressions.Literal.number"] = lit_number

    def m_set(ex, st, args, kw, node):
        """Expression.set(key, value) without index: args[key] = value (pop when None); value.parent = self"""
        ex.trusted_used.add(A)
        recv, key, val = args[0], args[1], args[2]
        if len(args) > 3 or kw:
            raise Unsupported("Expression.set with index", node)
        d = args_of(ex, st, recv)
        did = V.rid(d.t)
        ex.bump_treever(st)
        isnone = V.is_none(val.t)
        has, dm = st.arr("$dhas"), st.arr("$dmap")
        st.heap["$dhas"] = z3.Store(has, did, z3.Store(has[did], key.t, z3.Not(isnone)))
        st.heap["$dmap"] = z3.Store(dm, did, z3.Store(dm[did], key.t, val.t))
        isn = z3.And(V.is_r(val.t), w.classes.isa(CLS(V.rid(val.t)), E))
        par = st.arr("parent")
        # a list value: every node in it gets `parent = self` (sqlglot's _set_parent); over-approximated by an arbitrary new
        # parent map (callers that set a list must allow `*.parent` to change)
        is_lst = z3.And(V.is_r(val.t), w.classes.isa(CLS(V.rid(val.t)), list))
        st.heap["parent"] = z3.If(isn, z3.Store(par, V.rid(val.t), recv.t), z3.If(is_lst, ex.fresh("H_parent", par.sort()), par))
        # key order bookkeeping is not tracked for args dicts
        return Val(NONE, NoneType)

    H["sqlglot.expressions.Expression.set"] = m_set

    COPY_SRC = z3.Function("sg_copy_of", I, I)
    COPY_CHILD = z3.Function("sg_copy_child", I, V, I)

    def m_copy(ex, st, args, kw, node):
        """deep copy: fresh node of the same class, parent None, args dict fresh; non-node arg values are the same
        values, node-valued args are (unknown) fresh copies of the same class"""
        ex.trusted_used.add(A)
        recv = args[0]
        oid = ex.as_ref(st, recv, node)
        pre_alloc = ex.alloc_term(st)
        d0 = args_of(ex, st, recv)
        obj = ex.new_object(st, None, recv.ty if isinstance(recv.ty, type) else E)
        # class equals the receiver's class
        nid = V.rid(obj.t)
        st.assume(CLS(nid) == CLS(oid))
        st.assume(COPY_SRC(nid) == oid)
        d = ex.new_object(st, dict, DictT(str, None))
        did, d0id = V.rid(d.t), V.rid(d0.t)
        st.heap["args"] = z3.Store(st.arr("args"), nid, d.t)
        st.heap["parent"] = z3.Store(st.arr("parent"), nid, NONE)
        ex.bump_alloc(st)
        k = z3.Const(fresh_name("ck"), V)
        old_has, old_map = st.arr("$dhas"), st.arr("$dmap")
        ov = old_map[d0id][k]
        is_node = z3.And(V.is_r(ov), w.classes.isa(CLS(V.rid(ov)), E))
        is_list = z3.And(V.is_r(ov), w.classes.isa(CLS(V.rid(ov)), list))
        # the copy's args dict, key by key: scalars are the same values; node / list values are fresh copies named by
        # COPY_CHILD(copy, key) (their own contents are whatever the heap holds at those fresh ids: unconstrained)
        child = V.r(COPY_CHILD(nid, k))
        lam = z3.Lambda([k], z3.If(z3.Or(is_node, is_list), child, ov))
        new_has = z3.Store(old_has, did, old_has[d0id])
        new_map = z3.Store(old_map, did, lam)
        kk = z3.Const(fresh_name("ck"), V)
        args_after = st.arr("args")
        ovk = old_map[d0id][kk]
        cid_ = COPY_CHILD(nid, kk)
        st.assume(
            z3.ForAll(
                [kk],
                z3.And(
                    cid_ >= pre_alloc,
                    z3.Implies(
                        z3.And(V.is_r(ovk), w.classes.isa(CLS(V.rid(ovk)), E)),
                        # a copied child is a node of the same class with an args dict of its own (deep copy)
                        z3.And(CLS(cid_) == CLS(V.rid(ovk)), COPY_SRC(cid_) == V.rid(ovk), V.is_r(args_after[cid_]), V.rid(args_after[cid_]) >= pre_alloc,
                               CLS(V.rid(args_after[cid_])) == w.classes.cid(dict)),
                    ),
                    z3.Implies(z3.And(V.is_r(ovk), w.classes.isa(CLS(V.rid(ovk)), list)), w.classes.isa(CLS(cid_), list)),
                ),
                patterns=[COPY_CHILD(nid, kk)],
            )
        )
        st.heap["$dhas"], st.heap["$dmap"] = new_has, new_map
        return obj

    H["sqlglot.expressions.Expression.copy"] = m_copy

    SQL_OF = z3.Function("sg_sql_of", I, S, I, S)

    def m_sql(ex, st, args, kw, node):
        ex.trusted_used.add(A)
        recv = args[0]
        oid = ex.as_ref(st, recv, node)
        dialect = kw.get("dialect", args[1] if len(args) > 1 else w.const(""))
        d = V.sval(dialect.t) if dialect.ty is str else z3.StringVal("?")
        out = SQL_OF(oid, d, treever(ex, st, recv))
        sql_facts(ex, st, recv, out)
        return Val(mks(out), str)

    H["sqlglot.expressions.Expression.sql"] = m_sql

    def sql_facts(ex, st, node_val, text):
        """A-SQLGLOT 5 / A-DUCK: the generated text of a statement is an INSERT/UPDATE/DELETE exactly when key_command says so,
        and is COMMIT / ROLLBACK text only for such statements"""
        from pyvc.spec import eval_nested

        from .externs_duck import DUCK_DML, DUCK_TXN_END

        kc = eval_nested(ex, st, "keycmd(e)", {"e": node_val})
        k = V.sval(kc.t)
        is_dml = z3.Or(k == z3.StringVal("INSERT"), k == z3.StringVal("UPDATE"), k == z3.StringVal("DELETE"))
        st.assume(DUCK_DML(text) == is_dml)
        st.assume(z3.Implies(DUCK_TXN_END(text), z3.Or(k == z3.StringVal("COMMIT"), k == z3.StringVal("ROLLBACK"))))

    w.sql_facts = sql_facts

    def parse_one(ex, st, args, kw, node):
        ex.trusted_used.add(A)
        # may raise sqlglot ParseError on malformed text
        import sqlglot.errors

        fails = ex.fresh("parse_fails", B)
        ex.raise_if(st, fails, sqlglot.errors.ParseError, node)
        text = args[0] if args else None
        if text is not None and text.ty is str:
            n_ = ex.gh(st, "$parse_n")
            st.ghost["$parse_text"] = z3.Store(ex.gh(st, "$parse_text"), n_, V.sval(text.t))
            st.ghost["$parse_n"] = n_ + 1
        describe = bool(text is not None and text.parts and isinstance(text.parts[0], str) and text.parts[0].upper().startswith("DESCRIBE "))
        obj = ex.new_object(st, exp.Describe if describe else None, exp.Describe if describe else E)
        nid = V.rid(obj.t)
        st.assume(w.classes.isa(CLS(nid), E))
        d = ex.new_object(st, dict, DictT(str, None))
        did = V.rid(d.t)
        st.heap["args"] = z3.Store(st.arr("args"), nid, d.t)
        st.heap["parent"] = z3.Store(st.arr("parent"), nid, NONE)
        # a freshly parsed tree carries none of fakesnow's own bookkeeping arguments (they are attached by its transforms);
        # `DESCRIBE <statement>` has no kind (A-SQLGLOT 1)
        has = st.arr("$dhas")[did]
        for k_ in ("set_database", "set_schema", "create_db_name", "table_comment", "text_lengths", "seed", "col_comments") + (("kind",) if describe else ()):
            st.assume(z3.Not(has[mks(k_)]))
        ex.bump_alloc(st)
        return obj

    H["sqlglot.parse_one"] = parse_one

    TX_N, TX_NAME = "$tx_n", "$tx_name"
    w.ghost_sorts[TX_N] = I
    w.ghost_sorts[TX_NAME] = z3.ArraySort(I, S)
    w.ghost_sorts["$tx_a1"] = z3.ArraySort(I, V)
    w.ghost_sorts["$tx_a2"] = z3.ArraySort(I, V)

    def gh(st, name):
        g = st.ghost.get(name)
        if g is None:
            g = z3.Const(f"G0_{name}", w.ghost_sorts[name])
            st.ghost[name] = g
        return g

    def m_transform(ex, st, args, kw, node):
        """Expression.transform(fn, **kw): a new tree (A-SQLGLOT 2: fn applied to every node of a copy, pre-order, not
        descending into replaced nodes).  The ghost pipeline records which repo function was applied with which extra
        arguments (needed for 'first transform' / ordering / 'fills in conn.database' obligations)."""
        import ast as _ast

        from pyvc.exec import Closure

        ex.trusted_used.add(A)
        recv, fn = args[0], args[1]
        ex.as_ref(st, recv, node)
        name = None
        extra = []
        if isinstance(fn.py, Closure) and isinstance(fn.py.node, _ast.Lambda) and isinstance(fn.py.node.body, _ast.Call):
            call = fn.py.node.body
            callee = ex.ev(call.func, st)
            name = getattr(callee.py, "__module__", "?") + "." + getattr(callee.py, "__qualname__", "?")
            extra = [ex.ev(a, st) for a in call.args[1:]] + [ex.ev(k.value, st) for k in call.keywords]
        elif fn.py is not None and hasattr(fn.py, "__qualname__"):
            name = fn.py.__module__ + "." + fn.py.__qualname__
            extra = list(kw.values())
        else:
            raise Unsupported("transform() with an unrecognised callable", node)
        n = gh(st, TX_N)
        st.ghost[TX_NAME] = z3.Store(gh(st, TX_NAME), n, z3.StringVal(name))
        st.ghost["$tx_a1"] = z3.Store(gh(st, "$tx_a1"), n, extra[0].t if len(extra) > 0 else NONE)
        st.ghost["$tx_a2"] = z3.Store(gh(st, "$tx_a2"), n, extra[1].t if len(extra) > 1 else NONE)
        st.ghost[TX_N] = n + 1
        obj = ex.new_object(st, None, E)
        nid = V.rid(obj.t)
        st.assume(w.classes.isa(CLS(nid), E))
        d = ex.new_object(st, dict, DictT(str, None))
        st.heap["args"] = z3.Store(st.arr("args"), nid, d.t)
        st.heap["parent"] = z3.Store(st.arr("parent"), nid, NONE)
        ex.bump_alloc(st)
        return obj

    H["sqlglot.expressions.Expression.transform"] = m_transform

    @sf("tx_len")
    def _tx_len(ex, st, args):
        return Val(mki(gh(st, TX_N)), int)

    @sf("tx_name")
    def _tx_name(ex, st, args):
        return Val(mks(gh(st, TX_NAME)[ex.as_int(st, args[0])]), str)

    @sf("tx_arg1")
    def _tx_arg1(ex, st, args):
        return Val(gh(st, "$tx_a1")[ex.as_int(st, args[0])], None)

    @sf("tx_arg2")
    def _tx_arg2(ex, st, args):
        return Val(gh(st, "$tx_a2")[ex.as_int(st, args[0])], None)
    w.classes.add_tree(sqlglot.errors.SqlglotError) if hasattr(sqlglot.errors, "SqlglotError") else None

    # spec functions over nodes ---------------------------------------------------------------------
    def sf(name):
        def deco(f):
            w.specfuns[name] = SpecFun(name, f)
            return f

        return deco

    @sf("arg")
    def _arg(ex, st, args):
        """arg(node, 'key') == node.args.get('key')"""
        from pyvc.spec import concrete_of

        return arg_get(ex, st, args[0], concrete_of(args[1]))

    @sf("has_arg")
    def _has_arg(ex, st, args):
        d = args_of(ex, st, args[0])
        return Val(mkb(st.arr("$dhas")[V.rid(d.t)][args[1].t]), bool)

    @sf("cls_is")
    def _cls_is(ex, st, args):
        c = args[1].py
        return Val(mkb(z3.And(V.is_r(args[0].t), CLS(V.rid(args[0].t)) == w.classes.cid(c))), bool)

    @sf("same_class")
    def _same_class(ex, st, args):
        return Val(mkb(CLS(V.rid(args[0].t)) == CLS(V.rid(args[1].t))), bool)

    @sf("is_fresh")
    def _is_fresh(ex, st, args):
        # allocated during this call: id at or above the allocation pointer of the pre-state
        pre = ex.spec.old if ex.spec is not None else st
        return Val(mkb(z3.And(V.is_r(args[0].t), V.rid(args[0].t) >= ex.alloc_term(pre))), bool)

    w.ghost_sorts["$parse_n"] = I
    w.ghost_sorts["$parse_text"] = z3.ArraySort(I, S)

    @sf("parse_count")
    def _parse_count(ex, st, args):
        return Val(mki(ex.gh(st, "$parse_n")), int)

    @sf("parse_text")
    def _parse_text(ex, st, args):
        return Val(mks(ex.gh(st, "$parse_text")[ex.as_int(st, args[0])]), str)

    @sf("node_expressions")
    def _node_expressions(ex, st, args):
        return _expressions(ex, st, Val(args[0].t, E), None)

    @sf("mutation_kind_ok")
    def _mutation_kind_ok(ex, st, args):
        """the statement text generated for WHEN clause `w` (index j) is of the clause's kind and selects merge_op = j"""
        from pyvc.spec import eval_nested

        return eval_nested(
            ex, st,
            "((('DELETE FROM ' in text) if (isinstance(arg(w, 'then'), exp.Var) and isinstance(arg(arg(w, 'then'), 'this'), str) and upper(arg(arg(w, 'then'), 'this')) == 'DELETE') else ('UPDATE ' in text)) "
            "if arg(w, 'matched') else ('INSERT INTO ' in text)) and (('merge_op = ' + str(j)) in text)",
            {"w": args[0], "text": args[1], "j": args[2], "exp": w.const(exp)},
        )

    @sf("find_ident_dfs")
    def _find_ident_dfs(ex, st, args):
        return find_like("find", ex, st, args[0], [exp.Identifier], False)

    @sf("find_ident")
    def _find_ident(ex, st, args):
        return find_like("find", ex, st, args[0], [exp.Identifier], True)

    @sf("find_explode")
    def _find_explode(ex, st, args):
        return find_like("find", ex, st, args[0], [exp.Explode], True)

    @sf("ancestor_select")
    def _ancestor_select(ex, st, args):
        """node.find_ancestor(exp.Select) (the same uninterpreted function the method model uses)"""
        f = z3.Function("sg_find_ancestor_" + str(w.classes.cid(exp.Select)), I, I, V)
        r = f(V.rid(args[0].t), treever(ex, st, args[0]))
        st.assume(z3.Or(V.is_none(r), z3.And(V.is_r(r), w.classes.isa(CLS(V.rid(r)), exp.Select))))
        return Val(r, Opt(exp.Select))

    @sf("find_tuple")
    def _find_tuple(ex, st, args):
        return find_like("find", ex, st, args[0], [exp.Tuple], True)

    @sf("find_array_agg")
    def _find_array_agg(ex, st, args):
        return find_like("find", ex, st, args[0], [exp.ArrayAgg], True)

    @sf("find_clone")
    def _find_clone(ex, st, args):
        return find_like("find", ex, st, args[0], [exp.Clone], True)

    @sf("find_table")
    def _find_table(ex, st, args):
        return find_like("find", ex, st, args[0], [exp.Table], True)

    @sf("node_parent")
    def _node_parent(ex, st, args):
        v = Val(st.arr("parent")[V.rid(args[0].t)], Opt(E))
        st.assume(ex.type_pred(v.t, v.ty))
        return v

    @sf("node_name")
    def _node_name(ex, st, args):
        return _name(ex, st, Val(args[0].t, E), None)

    @sf("upper")
    def _upper(ex, st, args):
        from pyvc.pybuiltins import upper_of

        return Val(mks(upper_of(V.sval(args[0].t))), str)

    @sf("key_of")
    def _key_of(ex, st, args):
        c = CLS(V.rid(args[0].t))
        st.assume(key_facts(c))
        return Val(mks(KEY(c)), str)

    @sf("sql_of")
    def _sql_of(ex, st, args):
        d = V.sval(args[1].t)
        out = SQL_OF(V.rid(args[0].t), d, treever(ex, st, args[0]))
        sql_facts(ex, st, args[0], out)
        return Val(mks(out), str)
