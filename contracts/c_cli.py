"""Contracts for fakesnow/cli.py (C20: the CLI hands the target exactly its own arguments)."""
from __future__ import annotations

import z3

from pyvc.sorts import I, S, V, mkb, mki
from pyvc.state import Val
from pyvc.types import ListT, TupleT
from pyvc.world import Contract, SpecFun

ARR = z3.ArraySort(I, V)

# ---------------------------------------------------------------------------------------------------------
# Specification taken from the property text and fakesnow's own option table (arg_parser()):
#   value-taking options  -d/--db_path VALUE   and the self-contained forms  --db_path=VALUE  -dVALUE
#   target selection      -m/--module MODULE (module name follows) | --module=MODULE | -mMODULE | first positional
#   any other dash token before the target (e.g. -h) takes no value.
# cut(args, i) = number of leading tokens that belong to fakesnow when scanning starts at i:
#   everything after the target spec, and nothing before it, belongs to the target.
# ---------------------------------------------------------------------------------------------------------
CUT = z3.Function("cli_cut", ARR, I, I, I)  # uninterpreted + one-step unfoldings added where it is applied
def _is_any(t, lits):
    return z3.Or([t == z3.StringVal(x) for x in lits])


def tok_module_flag(t):
    return _is_any(t, ["-m", "--module"])


def tok_module_self(t):
    return z3.Or(z3.PrefixOf(z3.StringVal("--module="), t), z3.And(z3.PrefixOf(z3.StringVal("-m"), t), z3.Length(t) > 2))


def tok_value_flag(t):
    return _is_any(t, ["-d", "--db_path"])


def tok_dash(t):
    return z3.PrefixOf(z3.StringVal("-"), t)


def cut_body(_a, _n, _i):
    def _tok(i):
        return V.sval(z3.Select(_a, i))

    return z3.If(
        z3.Or(_i >= _n, _i < 0),
        _n,
        z3.If(
            tok_module_flag(_tok(_i)),
            z3.If(_i + 2 < _n, _i + 2, _n),
            z3.If(
                tok_module_self(_tok(_i)),
                _i + 1,
                z3.If(
                    tok_value_flag(_tok(_i)),
                    CUT(_a, _n, _i + 2),
                    z3.If(tok_dash(_tok(_i)), CUT(_a, _n, _i + 1), _i + 1),
                ),
            ),
        ),
    )


# wf(args, i): the tokens from i up to the target spec are fakesnow's own options in their short / long / = /
# attached forms, and the value of a value-taking option does not look like an option.  Any other command line
# makes argparse exit before the target runs, so the property says nothing about it.
WF = z3.Function("cli_wf", ARR, I, I, z3.BoolSort())


def tok_value_self(t):
    return z3.Or(z3.PrefixOf(z3.StringVal("--db_path="), t), z3.And(z3.PrefixOf(z3.StringVal("-d"), t), z3.Length(t) > 2))


def wf_body(_a, _n, _i):
    def _tok(i):
        return V.sval(z3.Select(_a, i))

    return z3.If(
        z3.Or(_i >= _n, _i < 0),
        z3.BoolVal(True),
        z3.If(
            z3.Or(tok_module_flag(_tok(_i)), tok_module_self(_tok(_i))),
            z3.BoolVal(True),
            z3.If(
                tok_value_flag(_tok(_i)),
                z3.Or(_i + 1 >= _n, z3.And(z3.Not(tok_dash(_tok(_i + 1))), WF(_a, _n, _i + 2))),
                z3.If(tok_value_self(_tok(_i)), WF(_a, _n, _i + 1), z3.Not(tok_dash(_tok(_i)))),
            ),
        ),
    )


def py_wf(args, i=0):
    n = len(args)
    while True:
        if i >= n:
            return True
        t = args[i]
        if t in ("-m", "--module") or t.startswith("--module=") or (t.startswith("-m") and len(t) > 2):
            return True
        if t in ("-d", "--db_path"):
            if i + 1 >= n:
                return True
            if args[i + 1].startswith("-"):
                return False
            i += 2
            continue
        if t.startswith("--db_path=") or (t.startswith("-d") and len(t) > 2):
            i += 1
            continue
        return not t.startswith("-")


def py_cut(args, i=0):
    n = len(args)
    while True:
        if i >= n:
            return n
        t = args[i]
        if t in ("-m", "--module"):
            return min(i + 2, n)
        if t.startswith("--module=") or (t.startswith("-m") and len(t) > 2):
            return i + 1
        if t in ("-d", "--db_path"):
            i += 2
            continue
        if t.startswith("-"):
            i += 1
            continue
        return i + 1


def py_is_fs_option(t):
    return t in ("-d", "--db_path", "-m", "--module") or t.startswith(("--db_path=", "--module=")) or (t.startswith(("-d", "-m")) and len(t) > 2)


def install(w):
    def cut(ex, st, args):
        a, i = args
        v = ex.seq_of(st, a)
        it = ex.as_int(st, i)
        if ex.spec is not None:
            ex.spec.lemma(CUT(v.arr, v.n, it) == cut_body(v.arr, v.n, it))
        return Val(mki(CUT(v.arr, v.n, it)), int)

    w.specfuns["cut"] = SpecFun("cut", cut, py_cut)

    def wf(ex, st, args):
        a, i = args
        v = ex.seq_of(st, a)
        it = ex.as_int(st, i)
        if ex.spec is not None:
            ex.spec.lemma(WF(v.arr, v.n, it) == wf_body(v.arr, v.n, it))
        return Val(mkb(WF(v.arr, v.n, it)), bool)

    w.specfuns["wf"] = SpecFun("wf", wf, py_wf)

    def is_fs_option(ex, st, args):
        t = V.sval(args[0].t)
        long_eq = z3.Or(z3.PrefixOf(z3.StringVal("--db_path="), t), z3.PrefixOf(z3.StringVal("--module="), t))
        short_attached = z3.And(z3.Or(z3.PrefixOf(z3.StringVal("-d"), t), z3.PrefixOf(z3.StringVal("-m"), t)), z3.Length(t) > 2)
        return Val(mkb(z3.Or(_is_any(t, ["-d", "--db_path", "-m", "--module"]), long_eq, short_attached)), bool)

    w.specfuns["is_fs_option"] = SpecFun("is_fs_option", is_fs_option, py_is_fs_option)

    w.add_contract(
        Contract(
            "fakesnow.cli.split",
            params={"args": ListT(str)},
            requires=["wf(args, 0)"],
            result=TupleT(items=[ListT(str), ListT(str)]),
            ensures={
                # fsargs ++ targs == args, cut exactly after the target spec
                "C20.split.cut": "len(result[0]) == cut(args, 0)",
                "C20.split.fs": "forall(0, len(result[0]), lambda j: result[0][j] == args[j])",
                "C20.split.targs_len": "len(result[1]) == len(args) - cut(args, 0)",
                "C20.split.targs": "forall(0, len(result[1]), lambda j: result[1][j] == args[cut(args, 0) + j])",
            },
            loops={
                1: {
                    "inv": [
                        # i is python's loop variable: last value assigned, or the initial 0 when no iteration ran
                        "i == (_k - 1 if _k > 0 else 0)",
                        "isinstance(in_flag, bool)",
                        # scanning position of the specification: a pending flag value is skipped
                        "cut(args, 0) == cut(args, _k + 1 if in_flag else _k)",
                        "wf(args, _k + 1 if in_flag else _k)",
                        "implies(in_flag, _k > 0 and (_k >= len(args) or not args[_k].startswith('-')))",
                    ]
                }
            },
            locals={"in_flag": bool, "i": int, "a": str},
            props=["C20"],
        )
    )
