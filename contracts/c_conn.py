"""Contracts for fakesnow/conn.py and fakesnow/instance.py (C14, C03, C13, C16, C08, C15)."""
from __future__ import annotations

from pyvc.types import DictT, ListT, NoneType, Opt, TupleT
from pyvc.world import ClassSchema, Contract


def install(w):
    import pathlib

    import duckdb

    import fakesnow.conn
    import fakesnow.cursor
    import fakesnow.instance
    import fakesnow.variables

    Conn = fakesnow.conn.FakeSnowflakeConnection
    Cur = fakesnow.cursor.FakeSnowflakeCursor
    FS = fakesnow.instance.FakeSnow
    Duck = duckdb.DuckDBPyConnection
    w.schemas[Conn] = ClassSchema(
        Conn,
        fields={
            "_duck_conn": Duck,
            "_is_closed": bool,
            "database": Opt(str),
            "schema": Opt(str),
            "database_set": bool,
            "schema_set": bool,
            "db_path": Opt(pathlib.Path),
            "nop_regexes": Opt(ListT(str)),
            "_paramstyle": str,
            "variables": fakesnow.variables.Variables,
        },
    )
    w.schemas[FS] = ClassSchema(
        FS,
        fields={"create_database_on_connect": bool, "create_schema_on_connect": bool, "db_path": None, "nop_regexes": Opt(ListT(str)), "duck_conn": Duck},
    )

    # ----------------------------------------------------------------------------------------------------------
    # FakeSnowflakeConnection.__init__  (C14: connect does what its options say; C03: establishes the context)
    # D / S: the requested names upper-cased (None/'' when not given)
    # ----------------------------------------------------------------------------------------------------------
    D = "(database and upper(database))"
    S = "(schema and upper(schema))"
    w.add_contract(
        Contract(
            "fakesnow.conn.FakeSnowflakeConnection.__init__",
            params={
                "self": Conn,
                "duck_conn": Duck,
                "database": (Opt(str), None),
                "schema": (Opt(str), None),
                "create_database": (bool, True),
                "create_schema": (bool, True),
                "db_path": (Opt(str), None),
                "nop_regexes": (Opt(ListT(str)), None),
            },
            requires=[
                "not duck_closed(duck_conn)",
                # connect() hands over a cursor nobody has used yet: instance default search path
                "search_of(duck_conn) == ''",
                # DuckDB keeps every attached catalog with its information_schema and main schemas
                "implies(bool(database), implies(cat_exists(upper(database)), schema_exists(upper(database), 'MAIN') and schema_exists(upper(database), 'INFORMATION_SCHEMA')))",
            ],
            result=NoneType,
            modifies=["self._duck_conn", "self._is_closed", "self.database", "self.schema", "self.database_set", "self.schema_set", "self.db_path", "self.nop_regexes", "self._paramstyle", "self.variables",
                      "$ghost:$cats", "$ghost:$schemas", "$ghost:$files", "$ghost:$boot", "$ghost:$macros", "$ghost:$search", "$ghost:$dlast", "$ghost:$trace_n", "$ghost:$trace", "$ghost:$trace_c", "$ghost:$tres"],
            ensures={
                # names reported upper-cased either way
                "C14.names": f"self.database == {D} and self.schema == {S}",
                # creates exactly what the options allow
                "C14.creates.database": f"implies(bool(database), cat_exists(upper(database)) == (old(cat_exists(upper(database))) or create_database)) and cats_same_except(upper(database) if database else '')",
                # (MAIN and INFORMATION_SCHEMA come with every database)
                "C14.creates.schema": f"implies(bool(database) and bool(schema), schema_exists(upper(database), upper(schema)) == (old(schema_exists(upper(database), upper(schema))) or (cat_exists(upper(database)) and (create_schema or upper(schema) in ('MAIN', 'INFORMATION_SCHEMA')))))",
                "C14.creates.nothing_else": "schemas_same_except(upper(database) if database else '', upper(schema) if schema else '')",
                "C14.bootstrap": "implies(bool(database) and create_database and not old(cat_exists(upper(database))), bootstrapped(upper(database)))",
                "C14.file": "implies(bool(database) and create_database and not old(cat_exists(upper(database))), file_of(upper(database)) == db_file(db_path, upper(database)))",
                # current database / schema exactly when the objects exist
                "C14.context.database_set": "self.database_set == (bool(database) and cat_exists(upper(database)))",
                "C14.context.schema_set": "self.schema_set == (bool(database) and bool(schema) and schema_exists(upper(database), upper(schema)))",
                # C03 representation invariant established: conn.* and DuckDB's search path agree
                "C03.init.search": "implies(self.schema_set, search_of(duck_conn) == upper(database) + '.' + upper(schema)) and implies(self.database_set and not self.schema_set, search_of(duck_conn) == upper(database) + '.MAIN') and implies(not self.database_set, search_of(duck_conn) == '')",
                "C03.init.ctx_ok": "implies(self.schema_set, self.database_set)",
                "C03.init.own_cursor": "self._duck_conn is duck_conn and not self._is_closed",
                # C01: timestamps are read back in UTC: the last statement of every connect sets the time zone
                "C01.connect.utc": "trace_len() > old(trace_len()) and trace_at(trace_len() - 1) == \"SET GLOBAL TimeZone = 'UTC'\"",
                "C08.snapshot": "self._paramstyle == connector_paramstyle()",
                "C15.per_connection": "is_fresh(self.variables) and is_fresh(self.variables._variables) and dict_len(self.variables._variables) == 0",
                "C16.nop_regexes": "self.nop_regexes is nop_regexes",
                "C13.trace.conn": "forall(old(trace_len()), trace_len(), lambda j: trace_conn_at(j) is duck_conn)",
            },
            props=["C14", "C03", "C01", "C08", "C15", "C16", "C13", "C07"],
            locals={"$asserts": "raise", "$sql_templates_only": True},
        )
    )


def install_methods(w):
    import duckdb
    import snowflake.connector.cursor as sfcur

    import fakesnow.conn
    import fakesnow.cursor
    import fakesnow.instance

    Conn = fakesnow.conn.FakeSnowflakeConnection
    Cur = fakesnow.cursor.FakeSnowflakeCursor
    FS = fakesnow.instance.FakeSnow
    Duck = duckdb.DuckDBPyConnection
    MC = "fakesnow.cursor.FakeSnowflakeCursor."
    MN = "fakesnow.conn.FakeSnowflakeConnection."
    cur_fields = ["self._conn", "self._duck_conn", "self._use_dict_result", "self._last_sql", "self._last_params", "self._sqlstate", "self._arraysize",
                  "self._arrow_table", "self._arrow_table_fetch_index", "self._rowcount", "self._converter"]
    w.add_contract(
        Contract(
            MC + "__init__",
            params={"self": Cur, "conn": Conn, "duck_conn": Duck, "use_dict_result": (bool, False)},
            requires=[],
            result=NoneType,
            modifies=cur_fields,
            ensures={
                "C05.cursor.init": "self._conn is conn and self._duck_conn is duck_conn and self._use_dict_result == use_dict_result and self._arrow_table is None "
                "and self._arrow_table_fetch_index is None and self._rowcount is None and self._arraysize == 1 and self._sqlstate is None and self._last_sql is None and self._last_params is None",
            },
            props=["C05", "C03", "C13"],
        )
    )
    w.add_contract(Contract(MC + "__enter__", params={"self": Cur}, requires=[], result=Cur, modifies=[], pure=True, ensures={"C06.enter": "result is self"}, props=["C06"]))
    w.add_contract(Contract(MC + "__exit__", params={"self": Cur, "exc_type": None, "exc_value": None, "traceback": None}, requires=[], result=NoneType, modifies=[], pure=True, ensures={"C06.exit": "True"}, props=["C06"]))
    w.add_contract(
        Contract(
            MN + "cursor",
            params={"self": Conn, "cursor_class": (None, sfcur.SnowflakeCursor)},
            requires=[],
            result=Cur,
            fresh_result=True,
            modifies=[],
            ensures={
                # C03 / C13: every cursor of a connection works on that connection's own DuckDB connection and context
                "C13.cursor.shares_connection": "result._conn is self and result._duck_conn is self._duck_conn",
                "C05.cursor.fresh": "result._arrow_table is None and result._arrow_table_fetch_index is None and result._rowcount is None and result._arraysize == 1 and result._last_sql is None",
                "C05.cursor.kind": "result._use_dict_result == (cursor_class is snowflake.connector.cursor.DictCursor)",
            },
            props=["C03", "C13", "C05"],
        )
    )
    w.add_contract(
        Contract(
            MN + "close",
            params={"self": Conn, "retry": (bool, True)},
            requires=[],
            result=NoneType,
            modifies=["self._is_closed", "$ghost:$closed"],
            ensures={"C07.close": "self._is_closed and duck_closed(self._duck_conn)"},
            props=["C07"],
        )
    )
    w.add_contract(
        Contract(
            "fakesnow.instance.FakeSnow.connect",
            params={"self": FS, "database": (Opt(str), None), "schema": (Opt(str), None)},
            requires=["not duck_closed(self.duck_conn)",
                      "implies(bool(database), implies(cat_exists(upper(database)), schema_exists(upper(database), 'MAIN') and schema_exists(upper(database), 'INFORMATION_SCHEMA')))"],
            result=Conn,
            fresh_result=True,
            modifies=[m for m in w.contracts[MN + "__init__"].modifies if m.startswith("$ghost:")] + ["$ghost:$closed"],
            ensures={
                # C03 / C13: each connect gets its own DuckDB connection object (search path and transaction of its own) on the shared instance
                "C03.own_cursor": "is_fresh(result._duck_conn) and result._duck_conn is not self.duck_conn and duck_parent(result._duck_conn) is self.duck_conn",
                # C14: the instance's options reach the connection unchanged
                "C14.plumbing.names": "result.database == (database and upper(database)) and result.schema == (schema and upper(schema))",
                "C14.plumbing.nop": "result.nop_regexes is self.nop_regexes",
                "C14.plumbing.context": "result.database_set == (bool(database) and cat_exists(upper(database))) and result.schema_set == (bool(database) and bool(schema) and schema_exists(upper(database), upper(schema)))",
                "C14.plumbing.creates": "implies(bool(database), cat_exists(upper(database)) == (old(cat_exists(upper(database))) or self.create_database_on_connect))",
                "C15.per_connection": "is_fresh(result.variables)",
            },
            props=["C03", "C13", "C14", "C15"],
        )
    )
