"""Contracts for fakesnow/types.py (C06: DuckDB describe type -> Snowflake rowtype / ResultMetadata)."""
from __future__ import annotations

import z3

from pyvc.sorts import I, S, V, mkb, mki, mks
from pyvc.state import Val
from pyvc.types import DictT, ListT, NoneType, Opt, TupleT
from pyvc.world import Contract, SpecFun

# ---------------------------------------------------------------------------------------------------------------
# Specification table taken from the property text (C06) and DESIGN Appendix D: per DuckDB result type the
# Snowflake type code with precision / scale / length.  Domain: the types a DuckDB result column can have (A-DUCK).
# ---------------------------------------------------------------------------------------------------------------
FIXED_INTS = ["BIGINT", "INTEGER", "SMALLINT", "TINYINT", "HUGEINT", "UBIGINT", "UINTEGER", "USMALLINT", "UTINYINT"]
SPEC_TABLE = {
    **{t: ("fixed", 38, 0, None, None) for t in FIXED_INTS},
    "DOUBLE": ("real", None, None, None, None),
    "FLOAT": ("real", None, None, None, None),
    "VARCHAR": ("text", None, None, 16777216, 16777216),
    "BLOB": ("binary", None, None, 8388608, 8388608),
    "BOOLEAN": ("boolean", None, None, None, None),
    "DATE": ("date", None, None, None, None),
    "TIME": ("time", 0, 9, None, None),
    "TIMESTAMP": ("timestamp_ntz", 0, 9, None, None),
    "TIMESTAMP_NS": ("timestamp_ntz", 0, 9, None, None),
    "TIMESTAMP WITH TIME ZONE": ("timestamp_tz", 0, 9, None, None),
    "JSON": ("variant", None, None, None, None),
}


def spec_row(column_type: str):
    if column_type in SPEC_TABLE:
        return SPEC_TABLE[column_type]
    import re

    m = re.fullmatch(r"DECIMAL\((\d+),(\d+)\)", column_type)
    if m:
        return ("fixed", int(m[1]), int(m[2]), None, None)
    return None


def domain(w=None):
    """complete for the thorough tier: every DuckDB result type of the table and every DECIMAL(p,s), 1<=p<=38, 0<=s<=p.
    quick tier: all named types and the DECIMAL(p,s) with p, s on digit-count / range edges"""
    import os

    cases = []
    for t in SPEC_TABLE:
        cases.append({"bind": {"column_type": t}, "label": t.replace(" ", "_")})
    full = os.environ.get("VERIF_TIER_EFFECTIVE", "quick") == "thorough"
    for p in range(1, 39):
        for s in range(0, p + 1):
            if not full and not (p in (1, 2, 9, 10, 11, 18, 19, 20, 37, 38) and s in (0, 1, 2, 9, 10, 11, 12, p - 1, p)):
                continue
            cases.append({"bind": {"column_type": f"DECIMAL({p},{s})"}, "label": f"DECIMAL({p},{s})"})
    return cases


def install(w):
    def sf(name, idx):
        def z(ex, st, args):
            # symbolic column type: uninterpreted (only used modularly, callers never look inside)
            f = z3.Function(f"spec_rowtype_{name}", S, V)
            return Val(f(V.sval(args[0].t)), None)

        def py(column_type):
            r = spec_row(column_type)
            return None if r is None else r[idx]

        w.specfuns[f"spec_{name}"] = SpecFun(f"spec_{name}", z, py, concrete_ok=True)

    for i, nm in enumerate(["type", "precision", "scale", "length", "bytelength"]):
        sf(nm, i)

    def _is_rt(ex, st, args):
        f = z3.Function("is_duck_result_type", S, z3.BoolSort())
        return Val(mkb(f(V.sval(args[0].t))), bool)

    # the DuckDB types a result column can have and that correspond to a Snowflake type of the property's list
    w.specfuns["is_result_type"] = SpecFun("is_result_type", _is_rt, lambda t: spec_row(t) is not None, concrete_ok=True)

    w.add_contract(
        Contract(
            "fakesnow.types.describe_as_rowtype.<locals>.as_column_info",
            params={"column_name": str, "column_type": str},
            requires=["is_result_type(column_type)"],
            result=DictT(str, None),
            fresh_result=True,
            ensures={
                "C06.rowtype.name": "result['name'] == column_name",
                "C06.rowtype.type": "result['type'] == spec_type(column_type)",
                "C06.rowtype.precision": "result['precision'] == spec_precision(column_type)",
                "C06.rowtype.scale": "result['scale'] == spec_scale(column_type)",
                "C06.rowtype.length": "result['length'] == spec_length(column_type)",
                "C06.rowtype.bytelength": "result['byteLength'] == spec_bytelength(column_type)",
                "C06.rowtype.nullable": "result['nullable'] == True",
            },
            cases=domain,
            props=["C06", "C17"],
        )
    )
    w.add_contract(
        Contract(
            "fakesnow.types.describe_as_rowtype",
            params={"describe_results": ListT(TupleT(items=[str, str, None, None, None, None]))},
            requires=["forall(0, len(describe_results), lambda j: is_result_type(describe_results[j][1]))"],
            result=ListT(DictT(str, None)),
            ensures={
                "C06.rowtype.count": "len(result) == len(describe_results)",
                "C06.rowtype.order": "forall(0, len(result), lambda j: result[j]['name'] == describe_results[j][0] and result[j]['type'] == spec_type(describe_results[j][1]) "
                "and result[j]['precision'] == spec_precision(describe_results[j][1]) and result[j]['scale'] == spec_scale(describe_results[j][1]))",
            },
            props=["C06", "C17"],
        )
    )
