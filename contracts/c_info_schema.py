"""Contracts for fakesnow/info_schema.py and macros.py: SQL text builders (their meaning is DuckDB's, A-DUCK)."""
from __future__ import annotations

from pyvc.types import DictT, ListT, NoneType, Opt, TupleT
from pyvc.world import Contract


A_PURE = ("A-PURE: info_schema.insert_table_comment_sql / insert_text_lengths_sql return a text determined by their arguments "
          "(bodies are f-strings over the parameters only); `comment_sql_of` / `text_lengths_sql_of` name that text")


def install(w):
    import z3

    from pyvc.sorts import S, V, mks
    from pyvc.state import Val
    from pyvc.world import SpecFun

    CS = z3.Function("comment_sql_of", S, S, S, S, S)
    TS = z3.Function("text_lengths_sql_of", S, S, S, V, S)

    def comment_sql_of(ex, st, args):
        return Val(mks(CS(*[ex.as_str(st, a, None) for a in args])), str)

    def text_lengths_sql_of(ex, st, args):
        return Val(mks(TS(*[ex.as_str(st, a, None) for a in args[:3]], args[3].t)), str)

    w.specfuns["comment_sql_of"] = SpecFun("comment_sql_of", comment_sql_of)
    w.specfuns["text_lengths_sql_of"] = SpecFun("text_lengths_sql_of", text_lengths_sql_of)
    w.add_contract(
        Contract(
            "fakesnow.info_schema.insert_table_comment_sql",
            params={"catalog": str, "schema": str, "table": str, "comment": str},
            requires=[],
            result=str,
            pure=True,
            modifies=[],
            ensures={
                "C09.comment_sql.total": "isinstance(result, str)",
                # the comment is recorded for exactly catalog.schema.table, in that catalog's side table, replacing an earlier one
                "C09.comment_sql.target": "('INSERT INTO ' + catalog + '.information_schema._fs_tables_ext') in result",
                "C09.comment_sql.row": "(\"values ('\" + catalog + \"', '\" + schema + \"', '\" + table + \"', '\" + comment + \"')\") in result",
                "C09.comment_sql.upsert": "'ON CONFLICT (ext_table_catalog, ext_table_schema, ext_table_name)' in result and 'DO UPDATE SET comment = excluded.comment' in result",
            },
            private=["C09.comment_sql.target", "C09.comment_sql.row", "C09.comment_sql.upsert"],
            assumed_ensures={"A-PURE.comment_sql": "result == comment_sql_of(catalog, schema, table, comment)"},
            props=["C09"],
        )
    )
    w.add_contract(
        Contract(
            "fakesnow.info_schema.insert_text_lengths_sql",
            params={"catalog": str, "schema": str, "table": str, "text_lengths": ListT(TupleT(items=[str, int]))},
            requires=[],
            result=str,
            pure=True,
            modifies=[],
            ensures={
                "C09.text_lengths_sql.total": "isinstance(result, str)",
                "C09.text_lengths_sql.target": "('INSERT INTO ' + catalog + '.information_schema._fs_columns_ext') in result",
                "C09.text_lengths_sql.upsert": "'ON CONFLICT (ext_table_catalog, ext_table_schema, ext_table_name, ext_column_name)' in result and 'DO UPDATE SET ext_character_maximum_length = excluded.ext_character_maximum_length' in result",
            },
            private=["C09.text_lengths_sql.target", "C09.text_lengths_sql.upsert"],
            assumed_ensures={"A-PURE.text_lengths_sql": "result == text_lengths_sql_of(catalog, schema, table, text_lengths)"},
            props=["C09"],
        )
    )
