"""Contracts for fakesnow/info_schema.py and macros.py: SQL text builders (their meaning is DuckDB's, A-DUCK)."""
from __future__ import annotations

from pyvc.types import DictT, ListT, NoneType, Opt, TupleT
from pyvc.world import Contract


def install(w):
    w.add_contract(
        Contract(
            "fakesnow.info_schema.insert_table_comment_sql",
            params={"catalog": str, "schema": str, "table": str, "comment": str},
            requires=[],
            result=str,
            pure=True,
            modifies=[],
            ensures={
                "C09.comment_sql.total": "isinstance(result, str)",
                # the comment is recorded for exactly catalog.schema.table, in that catalog's side table, replacing an earlier one
                "C09.comment_sql.target": "('INSERT INTO ' + catalog + '.information_schema._fs_tables_ext') in result",
                "C09.comment_sql.row": "(\"values ('\" + catalog + \"', '\" + schema + \"', '\" + table + \"', '\" + comment + \"')\") in result",
                "C09.comment_sql.upsert": "'ON CONFLICT (ext_table_catalog, ext_table_schema, ext_table_name)' in result and 'DO UPDATE SET comment = excluded.comment' in result",
            },
            props=["C09"],
        )
    )
    w.add_contract(
        Contract(
            "fakesnow.info_schema.insert_text_lengths_sql",
            params={"catalog": str, "schema": str, "table": str, "text_lengths": ListT(TupleT(items=[str, int]))},
            requires=[],
            result=str,
            pure=True,
            modifies=[],
            ensures={
                "C09.text_lengths_sql.total": "isinstance(result, str)",
                "C09.text_lengths_sql.target": "('INSERT INTO ' + catalog + '.information_schema._fs_columns_ext') in result",
                "C09.text_lengths_sql.upsert": "'ON CONFLICT (ext_table_catalog, ext_table_schema, ext_table_name, ext_column_name)' in result and 'DO UPDATE SET ext_character_maximum_length = excluded.ext_character_maximum_length' in result",
            },
            props=["C09"],
        )
    )
