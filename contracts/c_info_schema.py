"""Contracts for fakesnow/info_schema.py and macros.py: SQL text builders (their meaning is DuckDB's, A-DUCK)."""
from __future__ import annotations

from pyvc.types import DictT, ListT, NoneType, Opt, TupleT
from pyvc.world import Contract


def install(w):
    w.add_contract(
        Contract(
            "fakesnow.info_schema.insert_table_comment_sql",
            params={"catalog": str, "schema": str, "table": str, "comment": str},
            requires=[],
            result=str,
            pure=True,
            modifies=[],
            ensures={"C09.comment_sql.total": "isinstance(result, str)"},
            props=["C09"],
        )
    )
    w.add_contract(
        Contract(
            "fakesnow.info_schema.insert_text_lengths_sql",
            params={"catalog": str, "schema": str, "table": str, "text_lengths": ListT(TupleT(items=[str, int]))},
            requires=[],
            result=str,
            pure=True,
            modifies=[],
            ensures={"C09.text_lengths_sql.total": "isinstance(result, str)"},
            props=["C09"],
        )
    )
