"""A-PY / A-SFC: assumed contracts for stdlib and connector calls made by the functions under contract."""
from __future__ import annotations

import os
import re

import z3

from pyvc.sorts import B, CLS, I, NONE, S, V, mkb, mki, mkr, mks
from pyvc.spec import _NO, concrete_of
from pyvc.state import Val, arr_lit, fresh_name
from pyvc.types import DictT, ListT, NoneType, Opt, TupleT
from pyvc.world import ClassSchema, Unsupported


def install(w):
    H = w.handlers
    w.classes.add(re.Match)
    w.schemas[re.Match] = ClassSchema(re.Match, fields={})

    A_RE = "A-PY re.search/re.match: evaluated with the real `re` module when pattern and subject are literals; otherwise an unconstrained Optional[Match] whose groups are strings"

    def _re_call(kind):
        real = getattr(re, kind)

        def h(ex, st, args, kw, node):
            pat, subj = args[0], args[1]
            flags = args[2] if len(args) > 2 else kw.get("flags")
            cp, cs = concrete_of(pat), concrete_of(subj)
            fl = 0
            if flags is not None:
                if isinstance(flags.py, (int, re.RegexFlag)):
                    fl = int(flags.py)
                else:
                    cf = concrete_of(flags)
                    if cf is _NO:
                        cp = _NO
                    else:
                        fl = cf
            if cp is not _NO and cs is not _NO:
                m = real(cp, cs, fl)
                if m is None:
                    return Val(NONE, NoneType)
                obj = ex.new_object(st, re.Match)
                groups = [w.const(m.group(0))] + [w.const(g) for g in m.groups()]
                oid = V.rid(obj.t)
                st.heap["$len"] = z3.Store(st.arr("$len"), oid, z3.IntVal(len(groups)))
                st.heap["$el"] = z3.Store(st.arr("$el"), oid, arr_lit([g.t for g in groups]))
                return obj
            ex.trusted_used.add(A_RE)
            matched = ex.fresh("re_matched", B)
            obj = ex.new_object(st, re.Match)
            oid = V.rid(obj.t)
            n = ex.fresh("re_ngroups", I)
            st.assume(n >= 1)
            st.heap["$len"] = z3.Store(st.arr("$len"), oid, n)
            arr = ex.fresh("re_groups", z3.ArraySort(I, V))
            j = z3.Int(fresh_name("rg"))
            st.assume(z3.ForAll([j], z3.Or(V.is_s(arr[j]), V.is_none(arr[j]))))
            st.assume(V.is_s(arr[0]))
            st.heap["$el"] = z3.Store(st.arr("$el"), oid, arr)
            return Val(z3.If(matched, obj.t, NONE), Opt(re.Match))

        return h

    H["re.search"] = _re_call("search")
    H["re.match"] = _re_call("match")

    def match_getitem(ex, st, args, kw, node):
        m, idx = args
        oid = ex.as_ref(st, m, node)
        i = ex.as_int(st, idx, node)
        n = st.arr("$len")[oid]
        ex.raise_if(st, z3.Or(i < 0, i >= n), IndexError, node)
        v = Val(z3.simplify(st.arr("$el")[oid][i]), None)
        cv = concrete_of(v)
        if cv is not _NO:
            return w.const(cv)
        return v

    H["re.Match.__getitem__"] = match_getitem

    def match_group(ex, st, args, kw, node):
        m = args[0]
        idx = args[1] if len(args) > 1 else w.const(0)
        return match_getitem(ex, st, [m, idx], {}, node)

    H["re.Match.group"] = match_group

    # os.environ.get: any string or None, no effect (extraction abstracts the environment, DESIGN 2.4)
    def environ_get(ex, st, args, kw, node):
        return ex.fresh_val("env", Opt(str), st)

    H["os._Environ.get"] = environ_get
    w.classes.add(type(os.environ))
