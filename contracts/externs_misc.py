"""A-PY / A-SFC: assumed contracts for stdlib and connector calls made by the functions under contract."""
from __future__ import annotations

import os
import re

import z3

from pyvc.sorts import B, CLS, I, NONE, S, V, mkb, mki, mkr, mks
from pyvc.spec import _NO, concrete_of
from pyvc.state import Val, arr_lit, fresh_name
from pyvc.types import DictT, ListT, NoneType, Opt, TupleT
from pyvc.world import ClassSchema, Unsupported


def install(w):
    H = w.handlers
    w.classes.add(re.Match)
    w.schemas[re.Match] = ClassSchema(re.Match, fields={})

    A_RE = "A-PY re.search/re.match: evaluated with the real `re` module when pattern and subject are literals; otherwise an unconstrained Optional[Match] whose groups are strings"

    RE_START = z3.Function("re_matches_at_start", S, S, I, B)
    RE_ANY = z3.Function("re_matches_somewhere", S, S, I, B)

    def _re_match_start(ex, st, args):
        """re_match_start(pattern, subject, flags): re.match(pattern, subject, flags) is not None"""
        return Val(mkb(RE_START(V.sval(args[0].t), V.sval(args[1].t), ex.as_int(st, args[2]))), bool)

    from pyvc.world import SpecFun as _SF

    w.specfuns["re_match_start"] = _SF("re_match_start", _re_match_start)

    def _re_call(kind):
        real = getattr(re, kind)

        def h(ex, st, args, kw, node):
            pat, subj = args[0], args[1]
            flags = args[2] if len(args) > 2 else kw.get("flags")
            cp, cs = concrete_of(pat), concrete_of(subj)
            fl = 0
            if flags is not None:
                if isinstance(flags.py, (int, re.RegexFlag)):
                    fl = int(flags.py)
                else:
                    cf = concrete_of(flags)
                    if cf is _NO:
                        cp = _NO
                    else:
                        fl = cf
            if cp is not _NO and cs is not _NO:
                m = real(cp, cs, fl)
                if m is None:
                    return Val(NONE, NoneType)
                obj = ex.new_object(st, re.Match)
                groups = [w.const(m.group(0))] + [w.const(g) for g in m.groups()]
                oid = V.rid(obj.t)
                st.heap["$len"] = z3.Store(st.arr("$len"), oid, z3.IntVal(len(groups)))
                st.heap["$el"] = z3.Store(st.arr("$el"), oid, arr_lit([g.t for g in groups]))
                return obj
            ex.trusted_used.add(A_RE)
            # whether it matches is a fixed (unknown) function of pattern, subject and flags - a different one for match (at the
            # start) and search (anywhere); a match at the start is a match somewhere
            # (pattern and subject are strings by the signatures of the callers; no obligation is raised about it here)
            ps, ss = V.sval(pat.t), V.sval(subj.t)
            matched = (RE_START if kind == "match" else RE_ANY)(ps, ss, z3.IntVal(fl))
            st.assume(z3.Implies(RE_START(ps, ss, z3.IntVal(fl)), RE_ANY(ps, ss, z3.IntVal(fl))))
            obj = ex.new_object(st, re.Match)
            oid = V.rid(obj.t)
            n = ex.fresh("re_ngroups", I)
            st.assume(n >= 1)
            st.heap["$len"] = z3.Store(st.arr("$len"), oid, n)
            arr = ex.fresh("re_groups", z3.ArraySort(I, V))
            j = z3.Int(fresh_name("rg"))
            st.assume(z3.ForAll([j], z3.Or(V.is_s(arr[j]), V.is_none(arr[j]))))
            st.assume(V.is_s(arr[0]))
            st.heap["$el"] = z3.Store(st.arr("$el"), oid, arr)
            return Val(z3.If(matched, obj.t, NONE), Opt(re.Match))

        return h

    H["re.search"] = _re_call("search")
    H["re.match"] = _re_call("match")

    # methods of a compiled pattern held in a module-level constant (the real object is read from the imported module)
    def _re_method(kind):
        fn = _re_call(kind)

        def h(ex, st, args, kw, node):
            pobj = args[0].py
            if not isinstance(pobj, re.Pattern):
                raise Unsupported(f"re.Pattern.{kind} on a pattern that is not a module-level constant", node)
            flags = w.const(int(pobj.flags))
            flags.py = int(pobj.flags)
            return fn(ex, st, [w.const(pobj.pattern), args[1], flags], {}, node)

        return h

    H["re.Pattern.search"] = _re_method("search")
    H["re.Pattern.match"] = _re_method("match")

    # thread / process identity: some integer (no property under contract depends on its value)
    def _some_int(tag):
        def h(ex, st, args, kw, node):
            return Val(mki(ex.fresh(tag, I)), int)

        return h

    for nm in ("_thread.get_ident", "threading.get_ident", "os.getpid", "threading.get_native_id", "_thread.get_native_id"):
        H[nm] = _some_int(nm.replace(".", "_"))

    # logging: effect-free as far as any property is concerned (handlers that write somewhere are not modelled)
    import logging

    w.classes.add(logging.Logger)
    w.schemas[logging.Logger] = ClassSchema(logging.Logger, fields={})

    def _get_logger(ex, st, args, kw, node):
        return ex.new_object(st, logging.Logger)

    H["logging.getLogger"] = _get_logger

    def _log_nothing(ex, st, args, kw, node):
        ex.trusted_used.add("A-PY logging calls have no effect on program state")
        return Val(NONE, NoneType)

    for meth in ("debug", "info", "warning", "error", "exception", "critical", "log"):
        H[f"logging.Logger.{meth}"] = _log_nothing
        H[f"logging.{meth}"] = _log_nothing

    def match_getitem(ex, st, args, kw, node):
        m, idx = args
        oid = ex.as_ref(st, m, node)
        i = ex.as_int(st, idx, node)
        n = st.arr("$len")[oid]
        ex.raise_if(st, z3.Or(i < 0, i >= n), IndexError, node)
        v = Val(z3.simplify(st.arr("$el")[oid][i]), None)
        cv = concrete_of(v)
        if cv is not _NO:
            return w.const(cv)
        return v

    H["re.Match.__getitem__"] = match_getitem

    def match_group(ex, st, args, kw, node):
        m = args[0]
        idx = args[1] if len(args) > 1 else w.const(0)
        return match_getitem(ex, st, [m, idx], {}, node)

    H["re.Match.group"] = match_group

    # os.environ.get: any string or None, no effect (extraction abstracts the environment, DESIGN 2.4)
    def environ_get(ex, st, args, kw, node):
        return ex.fresh_val("env", Opt(str), st)

    H["os._Environ.get"] = environ_get
    w.classes.add(type(os.environ))


def install_more(w):
    """pathlib, string.Template, connector errors, module-level mutable attributes"""
    import pathlib
    from string import Template

    import snowflake.connector
    import snowflake.connector.errors as sferr

    H = w.handlers
    for c in (pathlib.PurePath, pathlib.Path, pathlib.PosixPath, Template):
        w.classes.add(c)
    w.symbolic_module_attrs[("snowflake.connector", "paramstyle")] = str

    PATHJOIN = z3.Function("path_join", S, S, S)

    def path_new(ex, st, cls, args, kw, node):
        (x,) = args
        p = ex.new_object(st, pathlib.PosixPath, pathlib.Path)
        st.heap["$pathstr"] = z3.Store(st.arr("$pathstr"), V.rid(p.t), mks(ex.str_of(st, x, node)))
        return p

    H["pathlib.PurePath.__new__*"] = path_new

    def path_div(ex, st, args, kw, node):
        a, b = args
        oid = ex.as_ref(st, a, node)
        p = ex.new_object(st, pathlib.PosixPath, pathlib.Path)
        st.heap["$pathstr"] = z3.Store(st.arr("$pathstr"), V.rid(p.t), mks(PATHJOIN(V.sval(st.arr("$pathstr")[oid]), ex.str_of(st, b, node))))
        return p

    H["pathlib.Path.__truediv__"] = path_div
    w.str_handlers[pathlib.PurePath] = lambda ex, st, v: V.sval(st.arr("$pathstr")[V.rid(v.t)])
    w.schemas[pathlib.PurePath] = ClassSchema(pathlib.PurePath, fields={})

    # string.Template.substitute on a module-level Template constant: exact substitution of ${name}
    def template_substitute(ex, st, args, kw, node):
        t = args[0]
        if not isinstance(t.py, Template):
            raise Unsupported("Template.substitute on a non-constant template", node)
        text = t.py.template
        pieces = re.split(r"\$\{(\w+)\}", text)
        terms, parts = [], []
        for i, p in enumerate(pieces):
            if i % 2 == 0:
                if p:
                    terms.append(z3.StringVal(p))
                    parts.append(p)
            else:
                if p not in kw:
                    raise Unsupported(f"Template.substitute missing {p}", node)
                terms.append(ex.str_of(st, kw[p], node))
                parts.append(kw[p])
        out = Val(mks(z3.Concat(terms) if len(terms) > 1 else terms[0]), str, parts=parts)
        out.py = None
        if t.py in getattr(w, "status_templates", ()):
            from .externs_duck import IS_STATUS

            st.assume(IS_STATUS(V.sval(out.t)))
        return out

    H["string.Template.substitute"] = template_substitute

    # snowflake.connector.errors.*: Error(msg=, errno=, sqlstate=) stores its keyword arguments (A-SFC)
    w.classes.add_tree(sferr.Error)
    w.schemas[sferr.Error] = ClassSchema(sferr.Error, fields={"msg": Opt(str), "errno": Opt(int), "sqlstate": Opt(str)})

    def sf_error_new(ex, st, cls, args, kw, node):
        e = ex.new_object(st, cls)
        oid = V.rid(e.t)
        vals = {"msg": w.const(None), "errno": w.const(-1), "sqlstate": w.const(None)}
        names = ["msg", "errno", "sqlstate"]
        for n_, a in zip(names, args):
            vals[n_] = a
        for k, v in kw.items():
            vals[k] = v
        for k, v in vals.items():
            st.heap[k] = z3.Store(st.arr(k), oid, v.t)
        return e

    H["snowflake.connector.errors.Error.__new__*"] = sf_error_new

    from pyvc.world import SpecFun

    def _db_file(ex, st, args):
        """f"{Path(db_path)/name}.db" if db_path else ":memory:"  -- the file a database lives in (C14.file, C18)"""
        p, name = args
        joined = z3.Concat(PATHJOIN(ex.str_of(st, p), V.sval(name.t)), z3.StringVal(".db"))
        return Val(mks(z3.If(ex.truthy(st, p), joined, z3.StringVal(":memory:"))), str)

    w.specfuns["db_file"] = SpecFun("db_file", _db_file)

    def _connector_paramstyle(ex, st, args):
        return Val(z3.Const("G_snowflake.connector.paramstyle", V), str)

    w.specfuns["connector_paramstyle"] = SpecFun("connector_paramstyle", _connector_paramstyle)

    # SQL text builders of the repo whose meaning is DuckDB's (A-DUCK 3): tagged so that execute() recognises them
    def _creation_sql(kind):
        def h(ex, st, args, kw, node):
            (cat,) = args
            out = Val(mks(ex.fresh(f"{kind}_creation_sql", S)), str)
            w.sql_tags[out.t.get_id()] = (kind, cat)
            w._keep = getattr(w, "_keep", []) + [out.t]
            return out

        return h

    H["fakesnow.info_schema.creation_sql"] = _creation_sql("info_schema")
    H["fakesnow.macros.creation_sql"] = _creation_sql("macros")


def install_sfc(w):
    """A-SFC: snowflake.connector.converter.SnowflakeConverter (client-side binding), str % args, re.sub"""
    import snowflake.connector.converter as conv
    from pyvc.world import SpecFun

    H = w.handlers
    A = "A-SFC (SnowflakeConverter.to_snowflake/escape/quote: quote(escape(to_snowflake(v))) is a Snowflake literal denoting v that cannot terminate itself); A-PY str % args"
    w.classes.add(conv.SnowflakeConverter)
    w.schemas[conv.SnowflakeConverter] = ClassSchema(conv.SnowflakeConverter, fields={})
    TOSF = z3.Function("sfc_to_snowflake", V, V)
    ESC = z3.Function("sfc_escape", V, V)
    QUO = z3.Function("sfc_quote", V, V)
    for nm, f in (("to_snowflake", TOSF), ("escape", ESC), ("quote", QUO)):
        def mk(f_):
            def h(ex, st, args, kw, node):
                ex.trusted_used.add(A)
                return Val(f_(args[1].t), None)

            return h

        H[f"snowflake.connector.converter.SnowflakeConverter.{nm}"] = mk(f)

    def conv_new(ex, st, cls, args, kw, node):
        return ex.new_object(st, conv.SnowflakeConverter)

    H["snowflake.connector.converter.SnowflakeConverter.__new__*"] = conv_new

    def sf_literal(ex, st, args):
        return Val(QUO(ESC(TOSF(args[0].t))), None)

    w.specfuns["sf_literal"] = SpecFun("sf_literal", sf_literal)

    # `command % params`: the formatted text is a function of the format string and of the argument object's contents
    PYFMT_SEQ = z3.Function("py_format_seq", S, I, z3.ArraySort(I, V), S)
    PYFMT_MAP = z3.Function("py_format_map", S, z3.ArraySort(V, B), z3.ArraySort(V, V), S)
    PYFMT_ONE = z3.Function("py_format_one", S, V, S)
    w.ghost_sorts.update({"$fmt_n": I, "$fmt_cmd": S, "$fmt_arg": V, "$fmt_out": S})

    def str_mod(ex, st, args, kw, node):
        ex.trusted_used.add(A)
        a, b = args
        fmt = ex.as_str(st, a, node)
        ty = b.ty.t if isinstance(b.ty, Opt) else b.ty
        # may raise TypeError / ValueError / KeyError when placeholders and arguments do not fit
        bad = ex.fresh("format_mismatch", B)
        ex.raise_if(st, bad, TypeError, node)
        if isinstance(ty, (TupleT, ListT)):
            v = ex.seq_of(st, b, node)
            out = PYFMT_SEQ(fmt, v.n, v.arr)
        elif isinstance(ty, DictT):
            oid = V.rid(b.t)
            out = PYFMT_MAP(fmt, st.arr("$dhas")[oid], st.arr("$dmap")[oid])
        else:
            out = PYFMT_ONE(fmt, b.t)
        st.ghost["$fmt_n"] = ex.gh(st, "$fmt_n") + 1
        st.ghost["$fmt_cmd"] = fmt
        st.ghost["$fmt_arg"] = b.t
        st.ghost["$fmt_out"] = out
        return Val(mks(out), str)

    H["str.__mod__"] = str_mod

    def sf(name):
        def deco(f):
            w.specfuns[name] = SpecFun(name, f)
            return f

        return deco

    @sf("fmt_count")
    def _fmt_count(ex, st, args):
        return Val(mki(ex.gh(st, "$fmt_n")), int)

    @sf("fmt_cmd")
    def _fmt_cmd(ex, st, args):
        return Val(mks(ex.gh(st, "$fmt_cmd")), str)

    @sf("fmt_out")
    def _fmt_out(ex, st, args):
        return Val(mks(ex.gh(st, "$fmt_out")), str)

    @sf("fmt_arg")
    def _fmt_arg(ex, st, args):
        return Val(ex.gh(st, "$fmt_arg"), None)

    @sf("pyformat_seq")
    def _pyformat_seq(ex, st, args):
        v = ex.seq_of(st, args[1])
        return Val(mks(PYFMT_SEQ(V.sval(args[0].t), v.n, v.arr)), str)

    @sf("pyformat_map")
    def _pyformat_map(ex, st, args):
        oid = V.rid(args[1].t)
        return Val(mks(PYFMT_MAP(V.sval(args[0].t), st.arr("$dhas")[oid], st.arr("$dmap")[oid])), str)

    @sf("dict_has")
    def _dict_has(ex, st, args):
        return Val(mkb(st.arr("$dhas")[V.rid(args[0].t)][args[1].t]), bool)

    # re.sub(pattern, repl, string, flags=...): some string (A-PY; the textual claims about it are decided by the bounded tier)
    def re_sub(ex, st, args, kw, node):
        ex.trusted_used.add("A-PY re.sub returns a str and has no other effect (its text is not interpreted deductively)")
        return Val(mks(ex.fresh("re_sub", S)), str)

    H["re.sub"] = re_sub
