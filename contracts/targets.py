"""Functions under contract: (source file relative to the repo root, qualname in that file, contract name)."""

TARGETS = [
    ("fakesnow/cursor.py", "FakeSnowflakeCursor.fetchmany", "fakesnow.cursor.FakeSnowflakeCursor.fetchmany"),
    ("fakesnow/cursor.py", "FakeSnowflakeCursor.fetchone", "fakesnow.cursor.FakeSnowflakeCursor.fetchone"),
    ("fakesnow/cursor.py", "FakeSnowflakeCursor.fetchall", "fakesnow.cursor.FakeSnowflakeCursor.fetchall"),
    ("fakesnow/cli.py", "split", "fakesnow.cli.split"),
]

T = {cn.split(".")[-1] if cn.split(".")[-1] not in ("split",) else cn.split(".")[-1]: (rel, q, cn) for rel, q, cn in TARGETS}
