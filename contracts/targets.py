"""Functions under contract: (source file relative to the repo root, qualname in that file, contract name)."""

TARGETS = [
    ("fakesnow/cursor.py", "FakeSnowflakeCursor.fetchmany", "fakesnow.cursor.FakeSnowflakeCursor.fetchmany"),
    ("fakesnow/cursor.py", "FakeSnowflakeCursor.fetchone", "fakesnow.cursor.FakeSnowflakeCursor.fetchone"),
    ("fakesnow/cursor.py", "FakeSnowflakeCursor.fetchall", "fakesnow.cursor.FakeSnowflakeCursor.fetchall"),
    ("fakesnow/cli.py", "split", "fakesnow.cli.split"),
    ("fakesnow/types.py", "describe_as_rowtype.<locals>.as_column_info", "fakesnow.types.describe_as_rowtype.<locals>.as_column_info"),
    ("fakesnow/types.py", "describe_as_rowtype", "fakesnow.types.describe_as_rowtype"),
    ("fakesnow/server.py", "to_conn", "fakesnow.server.to_conn"),
    ("fakesnow/checks.py", "equal", "fakesnow.checks.equal"),
    ("fakesnow/expr.py", "key_command", "fakesnow.expr.key_command"),
    ("fakesnow/checks.py", "is_unqualified_table_expression", "fakesnow.checks.is_unqualified_table_expression"),
    ("fakesnow/conn.py", "FakeSnowflakeConnection.__init__", "fakesnow.conn.FakeSnowflakeConnection.__init__"),
    ("fakesnow/info_schema.py", "insert_table_comment_sql", "fakesnow.info_schema.insert_table_comment_sql"),
    ("fakesnow/info_schema.py", "insert_text_lengths_sql", "fakesnow.info_schema.insert_text_lengths_sql"),
    ("fakesnow/cursor.py", "FakeSnowflakeCursor._log_sql", "fakesnow.cursor.FakeSnowflakeCursor._log_sql"),
    ("fakesnow/cursor.py", "FakeSnowflakeCursor._execute", "fakesnow.cursor.FakeSnowflakeCursor._execute"),
    ("fakesnow/variables.py", "Variables.inline_variables", "fakesnow.variables.Variables.inline_variables"),
    ("fakesnow/cursor.py", "FakeSnowflakeCursor._inline_variables", "fakesnow.cursor.FakeSnowflakeCursor._inline_variables"),
    ("fakesnow/cursor.py", "FakeSnowflakeCursor._rewrite_with_params", "fakesnow.cursor.FakeSnowflakeCursor._rewrite_with_params"),
    ("fakesnow/cursor.py", "FakeSnowflakeCursor._transform_explode", "fakesnow.cursor.FakeSnowflakeCursor._transform_explode"),
    ("fakesnow/cursor.py", "FakeSnowflakeCursor._transform", "fakesnow.cursor.FakeSnowflakeCursor._transform"),
    ("fakesnow/cursor.py", "FakeSnowflakeCursor.execute", "fakesnow.cursor.FakeSnowflakeCursor.execute"),
    ("fakesnow/cursor.py", "FakeSnowflakeCursor.executemany", "fakesnow.cursor.FakeSnowflakeCursor.executemany"),
    ("fakesnow/cursor.py", "FakeSnowflakeCursor.__init__", "fakesnow.cursor.FakeSnowflakeCursor.__init__"),
    ("fakesnow/cursor.py", "FakeSnowflakeCursor.__enter__", "fakesnow.cursor.FakeSnowflakeCursor.__enter__"),
    ("fakesnow/cursor.py", "FakeSnowflakeCursor.__exit__", "fakesnow.cursor.FakeSnowflakeCursor.__exit__"),
    ("fakesnow/conn.py", "FakeSnowflakeConnection.cursor", "fakesnow.conn.FakeSnowflakeConnection.cursor"),
    ("fakesnow/conn.py", "FakeSnowflakeConnection.close", "fakesnow.conn.FakeSnowflakeConnection.close"),
    ("fakesnow/instance.py", "FakeSnow.connect", "fakesnow.instance.FakeSnow.connect"),
    ("fakesnow/cursor.py", "FakeSnowflakeCursor._describe_last_sql", "fakesnow.cursor.FakeSnowflakeCursor._describe_last_sql"),
    ("fakesnow/conn.py", "FakeSnowflakeConnection.commit", "fakesnow.conn.FakeSnowflakeConnection.commit"),
    ("fakesnow/conn.py", "FakeSnowflakeConnection.rollback", "fakesnow.conn.FakeSnowflakeConnection.rollback"),
    ("fakesnow/transforms_merge.py", "merge", "fakesnow.transforms_merge.merge"),
]

T = {cn.split("fakesnow.", 1)[1]: (rel, q, cn) for rel, q, cn in TARGETS}
T.update({cn.split(".")[-1]: (rel, q, cn) for rel, q, cn in TARGETS if not cn.endswith("__init__")})
