"""Functions under contract: (source file relative to the repo root, qualname in that file, contract name)."""

TARGETS = [
    ("fakesnow/cursor.py", "FakeSnowflakeCursor.fetchmany", "fakesnow.cursor.FakeSnowflakeCursor.fetchmany"),
    ("fakesnow/cursor.py", "FakeSnowflakeCursor.fetchone", "fakesnow.cursor.FakeSnowflakeCursor.fetchone"),
    ("fakesnow/cursor.py", "FakeSnowflakeCursor.fetchall", "fakesnow.cursor.FakeSnowflakeCursor.fetchall"),
]
