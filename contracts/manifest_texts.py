"""Texts for MANIFEST.json (one entry per claimed property) and the not-applicable list."""

NOT_APPLICABLE = {
    "C18": "decided by crash points inside DuckDB's WAL/checkpoint and inside multi-step statements; a function contract has no notion of 'the process dies here' (DESIGN 8)",
    "C19": "quantifies over thread interleavings of engine calls; this family has no concurrency reasoning here (DESIGN 8)",
}

# properties not claimed yet (build in progress); removed from here as their checks land
NOT_YET = {p: "not claimed yet: contracts for the functions it depends on are still being built (see DESIGN 12)" for p in
           ["C01", "C02", "C03", "C04", "C06", "C07", "C08", "C09", "C10", "C11", "C12", "C13", "C14", "C15", "C16", "C17", "C20"]}

CHECK_TEXT = {
    "C05": {
        "level": "proof",
        "technique": "contract-based deductive verification (own VC generator over the real Python AST, z3/cvc5), bounded fetch-sequence enumeration as stand-in for the engine assumptions",
        "text": "Every obligation generated from the current source of FakeSnowflakeCursor.fetchmany/fetchone/fetchall (postconditions slice/index/width/"
        "row contents/dict keys, exceptional postcondition 'no result set', frame, safety of every index/None access, callee preconditions) is "
        "discharged for all tables, positions, sizes and cursor kinds; exactly-once/in-order/empty-for-ever then holds for every call sequence by "
        "induction over the per-call contracts.",
        "note": "Trusted: pyarrow Table.slice/to_pylist/columns semantics (A-ARROW), Python semantics as encoded (DESIGN 2.5), z3/cvc5. "
        "That DuckDB's arrow table holds the statement's rows in result order is assumed; the bounded tier exercises it on the real stack (bounded, not proof).",
    },
}
