"""Texts for MANIFEST.json (one entry per claimed property) and the not-applicable list."""

NOT_APPLICABLE = {
    "C18": "decided by crash points inside DuckDB's WAL/checkpoint and inside multi-step statements; a function contract has no notion of 'the process dies here' (DESIGN 8)",
    "C19": "quantifies over thread interleavings of engine calls; this family has no concurrency reasoning here (DESIGN 8)",
}

# properties not claimed yet (build in progress); removed from here as their checks land
NOT_YET = {}

TECH = "contract-based deductive verification of the real functions (own VC generator over the Python AST, z3/cvc5 out of process); bounded run-time enumeration as labelled stand-in for engine assumptions"
def _t(text, note, level="proof"):
    return {"level": level, "technique": TECH, "text": text, "note": note}


TECH_SLICE = ("contract-based deductive verification of the fakesnow-side plumbing (own VC generator over the Python AST, z3/cvc5 out of process) - a slice of the property; "
              "the SQL/engine semantics the property is mostly about are decided by a bounded differential run-time tier (labelled bounded, not proof)")
def _o(text, note):
    return {"level": "other", "technique": TECH_SLICE, "text": text, "note": note}


CHECK_TEXT = {
    "C03": _t("Obligations of FakeSnowflakeConnection.__init__, FakeSnow.connect, conn.cursor, is_unqualified_table_expression, key_command, transforms.set_schema, _transform and _execute that carry the session-context "
              "invariant, the 90105/90106 guard and the USE bookkeeping are discharged for all statements and session states; known findings (USE DATABASE keeps the old schema name; USE SCHEMA without database; "
              "multi-table statements) are excluded by name and printed.",
              "Trusted: DuckDB resolves names against the search path set by SET schema; sqlglot shapes; the transform pipeline's well-formedness of bookkeeping arguments (A-WF). Bounded histories on the real stack."),
    "C04": _t("key_command classification and _execute's count / status / rowcount postconditions are discharged for every statement kind, count (0 included) and session state.",
              "Trusted: DuckDB changes exactly the right rows and reports the true count (A-DUCK 2); bounded DML histories against a Python reference exercise it."),
    "C06": _t("The rowtype table is proved for every DuckDB result type of the domain (all DECIMAL(p,s) in the thorough tier); _describe_last_sql is proved to change nothing reachable from the cursor or "
              "connection; _execute keeps the statement whose result is held. Known finding (DECIMAL(p,0)/HUGEINT fetched as Decimal) is printed.",
              "Trusted: DuckDB DESCRIBE reports the held result's types; A-SQLGLOT; A-WF. Bounded: description vs describe() vs fetched values over statement kinds."),
    "C07": _t("Exceptional postconditions of _execute/execute (error translation table, context unchanged, result reset, sqlstate set/reset, undefined variable before execution) are discharged on every raise path.",
              "Trusted: which DuckDB exception class a cause produces (A-DUCK 1): bounded tier over missing/duplicate objects x transaction modes x closed connection; the undefined-variable check is a regular expression (A-PY re), exercised in 8 placements relative to string literals."),
    "C08": _t("Parameter plumbing (_rewrite_with_params, execute order of inlining and binding, executemany once-per-set, paramstyle snapshot at connect) is discharged for all parameter containers and styles.",
              "Trusted: the connector's quoting denotes the value and cannot terminate itself (A-SFC); `%` formatting (A-PY). Bounded adversarial values on the real stack, incl. ==-equal values of different type (1/True/1.0) bound side by side, on a re-used cursor and across executemany rows, each against the statement with the literals written in."),
    "C13": _t("The fakesnow-side obligations (own DuckDB connection per connect shared by its cursors, COMMIT/ROLLBACK no-ops, conn.commit/rollback, statements run on the cursor's own connection) are discharged; "
              "atomicity/isolation are DuckDB's. Known finding: snapshot isolation hides another connection's COMMIT from a connection inside its own transaction.",
              "Trusted: DuckDB MVCC (A-DUCK 4). Bounded: interleavings of transactional scripts on two connections."),
    "C14": _t("Every obligation of FakeSnowflakeConnection.__init__ (never raises, creates exactly what the options allow, context flags, upper-cased names, bootstrap, file naming), FakeSnow.connect (option plumbing) and transforms.create_database (same file function for CREATE DATABASE by statement) "
              "is discharged for all arguments, flags and prior catalog states.",
              "Trusted: meaning of the seven SQL templates of connect (A-DUCK 3), matched syntactically. Bounded: the complete configuration product on the real stack."),
    "C16": _t("The no-op path of execute (nothing parsed or transformed, exactly the success select, only when configured) is discharged; execute_string is outside the verifier's subset and decided by the bounded tier only.",
              "Trusted: re.match (A-PY), sqlglot parse/generate round trip (A-SQLGLOT 5). Bounded: execute_string vs one-by-one (with and without remove_comments, dollar-quoted literals holding comment markers), nop pattern sets."),
    "C20": _t("cli.split is proved to cut every argument list of the property's domain exactly after the target spec (loop invariant against a recursive scanner spec from the option table); "
              "patch() and cli.main are outside the subset: bounded only.",
              "Trusted: argparse for the parser built by arg_parser(); unittest.mock.patch. Bounded: exhaustive argv enumeration, six patch() exit modes."),
    "C05": {
        "level": "proof",
        "technique": "contract-based deductive verification (own VC generator over the real Python AST, z3/cvc5), bounded fetch-sequence enumeration as stand-in for the engine assumptions",
        "text": "Every obligation generated from the current source of FakeSnowflakeCursor.fetchmany/fetchone/fetchall (postconditions slice/index/width/"
        "row contents/dict keys, exceptional postcondition 'no result set', frame, safety of every index/None access, callee preconditions) is "
        "discharged for all tables, positions, sizes and cursor kinds; exactly-once/in-order/empty-for-ever then holds for every call sequence by "
        "induction over the per-call contracts.",
        "note": "Trusted: pyarrow Table.slice/to_pylist/columns semantics (A-ARROW), Python semantics as encoded (DESIGN 2.5), z3/cvc5. "
        "That DuckDB's arrow table holds the statement's rows in result order is assumed; the bounded tier exercises it on the real stack (bounded, not proof).",
    },
    "C01": _o("Deductive slice: connect sets the session time zone to UTC; fetchmany/fetchone/fetchall return the cells of the held arrow table unchanged, each row once; the type-mapping rewrites store FLOAT as DOUBLE, "
              "VARIANT/OBJECT/ARRAY as JSON, TIMESTAMP_NTZ as TIMESTAMP, INT/SMALLINT/TINYINT and a bare NUMBER as BIGINT and leave every other type alone; CREATE TABLE ... CLONE s becomes CREATE TABLE ... AS SELECT * FROM s (one star, no filter). The value conversions (DuckDB, pyarrow) "
              "are outside any contract on fakesnow code: bounded round trips over every supported column type x boundary values x write path decide them. Known finding (NUMBER(p,0) wider than 18 digits read back as Decimal) printed.",
              "Not proof for the property as a whole: conversions by DuckDB/pyarrow are exercised on the stated bound only. Trusted: A-DUCK, A-ARROW."),
    "C02": _o("Deductive slice: checks.equal is Snowflake identifier equality for all identifier pairs; upper_case_unquoted_identifiers turns exactly the unquoted identifiers into upper-case copies and leaves every other node untouched, "
              "is the first transform of every statement and precedes the context/status transforms; "
              "conn.database/schema are the upper-cased arguments; status rows and USE bookkeeping use the normalised name. Bounded: scenario histories of every statement kind under keyword/identifier re-spellings "
              "(lower/UPPER/mIxEd/random, quoted upper-case naming) against the all-upper baseline. Known finding (information_schema column names reported in lower case) printed.",
              "Not proof for the property as a whole. Trusted: sqlglot's case-insensitive parsing and Expression.transform, DuckDB's case-insensitive resolution."),
    "C09": _o("Deductive slice: extract_comment_on_table records (the statement's own table, a declared comment); side-table SQL builders record a comment / text lengths for exactly catalog.schema.table as an upsert; _execute runs them right after a statement that declares a comment / text lengths, "
              "for the statement's own table on the cursor's connection; [db.]information_schema.columns in any letter case is redirected to the Snowflake-vocabulary view with its qualifiers kept; DROP SCHEMA always cascades; Snowflake type names/precision/scale come from the proved rowtype table. Bounded: DDL histories against a reference catalog over all metadata surfaces. "
              "Known findings (4) printed.",
              "Not proof for the property as a whole: the information_schema / SHOW SQL is DuckDB's. Trusted: A-DUCK, A-SQLGLOT, A-WF, A-PURE."),
    "C10": _o("Deductive slice: every statement goes through the whole transform pipeline in the fixed order and a database created by a statement gets the macros the rewrites rely on; "
              "VALUES columns are named COLUMN1..n; DATEADD of a day-or-larger part to a DATE is cast back to DATE; REGEXP_REPLACE long forms are rejected, short ones made global; TO_NUMBER's optional arguments are told apart as documented; TO_NUMBER/TO_DECIMAL/TO_NUMERIC and the TRY_ forms (dispatchers and helper) cast to DECIMAL(p default 38, s default 0) with CAST resp. TRY_CAST and reject a format argument; TO_DATE casts to DATE, TO_TIMESTAMP to TIMESTAMP (NTZ), TO_TIMESTAMP_NTZ parses with the ISO format; IDENTIFIER(x) is the unquoted identifier x; SAMPLE defaults to BERNOULLI; ARRAY_AGG (windowed or not) is wrapped in TO_JSON once; DATEADD / DATEDIFF over string literals cast them to TIMESTAMP; ARRAY_AGG WITHIN GROUP orders the aggregate by exactly the given keys; only the 256-bit SHA2 family is answered (sha256 / unhex(sha256)). "
              "Bounded: each function of the property x argument lists x syntactic contexts against Snowflake's documented results. Known findings (4) printed.",
              "Not proof for the property as a whole: value/type semantics of each rewrite are DuckDB's on the rewritten SQL; the other node-level rewrite functions are not under contract (A-TX)."),
    "C11": _o("Deductive slice: the order-sensitive JSON rewrites are applied in the order their correctness depends on, for every statement; v['k'] / v[n] become the extraction of $.k / $[n]; every path extraction is parenthesised whatever its parent; "
              "FLATTEN VALUE::varchar is the raw text wherever the flatten sits in the SELECT; VARIANT/OBJECT/ARRAY types are JSON; ARRAY_SIZE is CASE WHEN json_array_length(v) THEN json_array_length(v) END without a default; TRY_PARSE_JSON is a TRY_CAST to JSON; SPLIT is wrapped in to_json; UPPER/LOWER over an extraction read its raw text; LATERAL FLATTEN(input => v) unnests exactly v as JSON[] under the same alias with column VALUE. Bounded: JSON documents x paths x casts x contexts against navigating the same "
              "document in Python. Known findings (6) printed.",
              "Not proof for the property as a whole: JSON semantics are DuckDB's json extension; the other node-level rewrites are not under contract (A-TX)."),
    "C12": _o("Deductive slice: merge() produces candidates + one mutation per WHEN clause in clause order + counts, parses each generated statement once, passes non-MERGE statements through and fails only for a MERGE; "
              "identifier equality used for source columns is proved. Bounded: MERGE clause combinations x data against a Python reference of Snowflake's MERGE. Known findings (4) printed.",
              "Not proof for the property as a whole: row-level semantics of the generated SQL are DuckDB's; _create_merge_candidates/_mutations/_counts have assumed contracts."),
    "C15": _o("Deductive slice: SET binds exactly the named variable to the value's text, UNSET removes exactly it, every other statement leaves the store unchanged (Variables.update_variables/_set/_unset); each connection owns a fresh empty variable store shared by its cursors only; every statement text is inlined through it before parsing and binding; update_variables runs on every statement with "
              "that store; an undefined reference raises before anything is parsed or executed. Bounded: the substitution itself against a reference tokenizer, exhaustively over short texts, plus SET/UNSET histories. "
              "Known finding (adjacent references) printed.",
              "Not proof for the property as a whole: the substitution is a regular expression evaluated by CPython (A-PY re)."),
    "C17": _o("Deductive slice: to_conn refuses a missing / unknown token with 401 and the right code without touching the session map and otherwise returns exactly that token's session; the rowtype sent is the proved "
              "type table; describe-after-execute changes nothing. Bounded: the real connector against the real server vs the in-process fake over types x values (every microsecond fraction for the struct encoder in the "
              "thorough tier), statement kinds, sessions, tokens. Known finding (scale-0 wide NUMBER int vs Decimal) printed.",
              "Not proof for the property as a whole: arrow encoding, connector decoding and the async handlers are outside the verifier's subset."),
}
