"""Contracts for fakesnow/cursor.py (FakeSnowflakeCursor)."""
from __future__ import annotations

from pyvc.types import DictT, ListT, NoneType, Opt, TupleT
from pyvc.world import ClassSchema, Contract


def install(w):
    import duckdb
    import pyarrow as pa

    import fakesnow.conn
    import fakesnow.cursor

    Cur = fakesnow.cursor.FakeSnowflakeCursor
    Conn = fakesnow.conn.FakeSnowflakeConnection
    M = "fakesnow.cursor.FakeSnowflakeCursor."

    w.schemas[Cur] = ClassSchema(
        Cur,
        fields={
            "_conn": Conn,
            "_duck_conn": duckdb.DuckDBPyConnection,
            "_use_dict_result": bool,
            "_last_sql": Opt(str),
            "_last_params": None,
            "_sqlstate": Opt(str),
            "_arraysize": int,
            "_arrow_table": Opt(pa.Table),
            "_arrow_table_fetch_index": Opt(int),
            "_rowcount": Opt(int),
            "_converter": __import__("snowflake.connector.converter", fromlist=["x"]).SnowflakeConverter,
        },
    )

    # ------------------------------------------------------------------ C05: fetch*
    # abstract view: rows(t) of the result table, pos = fetch index (None = 0).  k = size or arraysize.
    OFF = "(old(self._arrow_table_fetch_index) or 0)"
    K = "(size or old(self._arraysize))"
    T_ = "old(self._arrow_table)"
    fetch_inv = [
        "self._arraysize >= 1",
        "self._arrow_table_fetch_index is None or self._arrow_table_fetch_index >= 0",
        "wf_table(self._arrow_table)",
    ]
    no_result = {TypeError: {"when": "old(self._arrow_table) is None", "ensures": {}, "modifies": []}}

    w.add_contract(
        Contract(
            M + "fetchmany",
            params={"self": Cur, "size": (Opt(int), None)},
            requires=fetch_inv + ["size is None or size >= 0"],
            raises=no_result,
            modifies=["self._arrow_table_fetch_index"],
            result=ListT(None),
            fresh_result=True,
            ensures={
                # rows pos .. pos+k-1 (as many as exist), in order
                "C05.fetchmany.count": f"len(result) == max(0, min({K}, nrows({T_}) - {OFF}))",
                "C05.fetchmany.index": f"self._arrow_table_fetch_index == {OFF} + {K}",
                "C05.fetchmany.elems": "forall(0, len(result), lambda j: is_dict(result[j]) if self._use_dict_result else is_tuple(result[j]))",
                "C05.fetchmany.width": f"implies(not self._use_dict_result, forall(0, len(result), lambda j: seq_len(result[j]) == ncols({T_})))",
                "C05.fetchmany.tuple_rows": f"implies(not self._use_dict_result, forall(0, len(result), lambda j: forall(0, ncols({T_}), lambda c: seq_at(result[j], c) == cell(row({T_}, {OFF} + j), c))))",
                "C05.fetchmany.dict_rows": f"implies(self._use_dict_result and distinct_names({T_}), forall(0, len(result), lambda j: dict_len(result[j]) == ncols({T_}) and forall(0, ncols({T_}), lambda c: dict_key(result[j], c) == colname({T_}, c) and dict_at(result[j], colname({T_}, c)) == cell(row({T_}, {OFF} + j), c))))",
            },
            props=["C05", "C01"],
        )
    )
    w.add_contract(
        Contract(
            M + "fetchone",
            params={"self": Cur},
            requires=fetch_inv,
            raises=no_result,
            modifies=["self._arrow_table_fetch_index"],
            ensures={
                "C05.fetchone.index": f"self._arrow_table_fetch_index == {OFF} + 1",
                "C05.fetchone.none_at_end": f"(result is None) == ({OFF} >= nrows({T_}))",
                "C05.fetchone.row": f"implies(result is not None and not self._use_dict_result, forall(0, ncols({T_}), lambda c: seq_at(result, c) == cell(row({T_}, {OFF}), c)))",
                "C05.fetchone.width": f"implies(result is not None and not self._use_dict_result, seq_len(result) == ncols({T_}))",
            },
            props=["C05"],
        )
    )
    w.add_contract(
        Contract(
            M + "fetchall",
            params={"self": Cur},
            requires=fetch_inv,
            raises=no_result,
            modifies=["self._arrow_table_fetch_index"],
            result=ListT(None),
            ensures={
                "C05.fetchall.count": f"len(result) == max(0, nrows({T_}) - {OFF})",
                "C05.fetchall.exhausts": f"self._arrow_table_fetch_index >= nrows({T_})",
                "C05.fetchall.tuple_rows": f"implies(not self._use_dict_result, forall(0, len(result), lambda j: forall(0, ncols({T_}), lambda c: seq_at(result[j], c) == cell(row({T_}, {OFF} + j), c))))",
                "C05.fetchall.width": f"implies(not self._use_dict_result, forall(0, len(result), lambda j: seq_len(result[j]) == ncols({T_})))",
            },
            props=["C05"],
        )
    )
