"""A-ARROW: assumed contracts of the pyarrow calls made by fakesnow (pyarrow 25, see DESIGN 3.4).

Abstract view of an (immutable) pyarrow.Table t:
    tbl_nrows(t) : Int >= 0       tbl_row(t, j)  : row id of row j          row_cell(r, c) : value of column c in row r
    tbl_ncols(t) : Int >= 0       tbl_name(t, c) : name (str) of column c   n_distinct(t)  : number of distinct names
"""
from __future__ import annotations

import z3

from pyvc.sorts import CLS, I, NONE, S, V, mkb, mki, mkr, mks
from pyvc.state import SeqView, Val, fresh_name
from pyvc.types import DictT, ListT, NoneType, Opt, TupleT
from pyvc.world import ClassSchema, SpecFun

TBL_NROWS = z3.Function("tbl_nrows", I, I)
TBL_ROW = z3.Function("tbl_row", I, I, V)
TBL_NCOLS = z3.Function("tbl_ncols", I, I)
TBL_NAME = z3.Function("tbl_name", I, I, V)
ROW_CELL = z3.Function("row_cell", V, I, V)
NDISTINCT = z3.Function("n_distinct_names", I, I)
COL_TBL = z3.Function("col_tbl", I, I)  # a column object (ChunkedArray) obtained from Table.columns: its table ...
COL_IDX = z3.Function("col_idx", I, I)  # ... and its position


def names_distinct(t):
    a, b = z3.Ints("nd_a nd_b")
    return z3.ForAll([a, b], z3.Implies(z3.And(0 <= a, a < b, b < TBL_NCOLS(t)), TBL_NAME(t, a) != TBL_NAME(t, b)))


def wf_table(t):
    """well-formedness facts of every table (assumed whenever a table is touched)"""
    return z3.And(
        TBL_NCOLS(t) >= 0,
        TBL_NROWS(t) >= 0,
        NDISTINCT(t) <= TBL_NCOLS(t),
        NDISTINCT(t) >= z3.If(TBL_NCOLS(t) > 0, 1, 0),
        (NDISTINCT(t) == TBL_NCOLS(t)) == names_distinct(t),
    )


def install(w):
    import pyarrow as pa

    A = "A-ARROW (pyarrow.Table.slice/to_pylist/num_rows/num_columns as documented; to_pylist builds one dict per row by inserting (name, value) in column order)"

    def table_truthy(ex, st, oid):
        return TBL_NROWS(oid) > 0

    w.schemas[pa.Table] = ClassSchema(pa.Table, fields={}, truthy=table_truthy)

    def attr(name):
        def deco(f):
            w.attr_handlers[(pa.Table, name)] = f
            return f

        return deco

    @attr("num_rows")
    def _num_rows(ex, st, obj, node):
        ex.trusted_used.add(A)
        oid = V.rid(obj.t)
        st.assume(wf_table(oid))
        return Val(mki(TBL_NROWS(oid)), int)

    @attr("num_columns")
    def _num_cols(ex, st, obj, node):
        ex.trusted_used.add(A)
        oid = V.rid(obj.t)
        st.assume(wf_table(oid))
        return Val(mki(TBL_NCOLS(oid)), int)

    def slice_(ex, st, args, kw, node):
        ex.trusted_used.add(A)
        t = args[0]
        off = kw.get("offset", args[1] if len(args) > 1 else w.const(0))
        ln = kw.get("length", args[2] if len(args) > 2 else w.const(None))
        oid = ex.as_ref(st, t, node)
        st.assume(wf_table(oid))
        o = ex.as_int(st, off, node)
        # pyarrow raises on a negative offset; fakesnow must never pass one: safety obligation
        ex.oblige(st, o >= 0, f"safe.slice.offset@{node.lineno}", "safe", node, "Table.slice offset >= 0")
        st.assume(o >= 0)
        n = TBL_NROWS(oid)
        res = ex.new_object(st, pa.Table)
        rid = V.rid(res.t)
        avail = z3.If(n - o < 0, z3.IntVal(0), n - o)
        if ln.ty is NoneType:
            cnt = avail
        else:
            l_ = ex.as_int(st, ln, node)
            ex.oblige(st, l_ >= 0, f"safe.slice.length@{node.lineno}", "safe", node, "Table.slice length >= 0")
            st.assume(l_ >= 0)
            cnt = z3.If(l_ < avail, l_, avail)
        j, c = z3.Ints(fresh_name("slj") + " " + fresh_name("slc"))
        st.assume(TBL_NROWS(rid) == cnt)
        st.assume(z3.ForAll([j], z3.Implies(z3.And(j >= 0, j < cnt), TBL_ROW(rid, j) == TBL_ROW(oid, o + j))))
        st.assume(TBL_NCOLS(rid) == TBL_NCOLS(oid))
        st.assume(z3.ForAll([c], TBL_NAME(rid, c) == TBL_NAME(oid, c)))
        st.assume(NDISTINCT(rid) == NDISTINCT(oid))
        st.assume(names_distinct(rid) == names_distinct(oid))
        return res

    w.handlers["pyarrow.lib.Table.slice"] = slice_

    def to_pylist(ex, st, args, kw, node):
        """list of fresh dicts; dict j has the distinct names as keys (first-occurrence order) and, when all names
        are distinct, maps name c to cell c of row j"""
        ex.trusted_used.add(A)
        t = args[0]
        oid = ex.as_ref(st, t, node)
        st.assume(wf_table(oid))
        n = TBL_NROWS(oid)
        pre_alloc = ex.alloc_term(st)
        did = z3.Function(fresh_name("pydict"), I, I)
        j, c, o = z3.Ints(fresh_name("tj") + " " + fresh_name("tc") + " " + fresh_name("to"))
        L = ex.new_seq(st, list, n, z3.Lambda([j], mkr(did(j))), elem=DictT(str, None))
        a1 = ex.alloc_term(st)
        ex.bump_alloc(st)
        a2 = ex.alloc_term(st)
        rng = z3.And(j >= 0, j < n)
        j2 = z3.Int(fresh_name("tj2"))
        st.assume(z3.ForAll([j], z3.Implies(rng, z3.And(did(j) >= a1, did(j) < a2, CLS(did(j)) == w.classes.cid(dict)))))
        st.assume(z3.ForAll([j, j2], z3.Implies(z3.And(rng, j2 >= 0, j2 < n, j != j2), did(j) != did(j2))))
        for nm in ("$klen", "$kel", "$dmap", "$dhas"):
            old = st.arr(nm)
            new = ex.fresh(f"H_{nm}", old.sort())
            st.assume(z3.ForAll([o], z3.Implies(o < a1, new[o] == old[o])))
            st.heap[nm] = new
        kl, ke, dm, dh = st.heap["$klen"], st.heap["$kel"], st.heap["$dmap"], st.heap["$dhas"]
        st.assume(z3.ForAll([j], z3.Implies(rng, kl[did(j)] == NDISTINCT(oid))))
        st.assume(
            z3.Implies(
                names_distinct(oid),
                z3.ForAll(
                    [j, c],
                    z3.Implies(
                        z3.And(rng, c >= 0, c < TBL_NCOLS(oid)),
                        z3.And(
                            ke[did(j)][c] == TBL_NAME(oid, c),
                            dm[did(j)][TBL_NAME(oid, c)] == ROW_CELL(TBL_ROW(oid, j), c),
                            dh[did(j)][TBL_NAME(oid, c)],
                        ),
                    ),
                ),
            )
        )
        return L

    w.handlers["pyarrow.lib.Table.to_pylist"] = to_pylist

    @attr("columns")
    def _columns(ex, st, obj, node):
        """fresh list of ncols column objects; column c knows (table, c)"""
        ex.trusted_used.add(A)
        oid = V.rid(obj.t)
        st.assume(wf_table(oid))
        n = TBL_NCOLS(oid)
        cid = z3.Function(fresh_name("colobj"), I, I)
        c, c2 = z3.Ints(fresh_name("cc") + " " + fresh_name("cc2"))
        a1 = ex.alloc_term(st)
        ex.bump_alloc(st)
        a2 = ex.alloc_term(st)
        rng = z3.And(c >= 0, c < n)
        st.assume(z3.ForAll([c], z3.Implies(rng, z3.And(cid(c) >= a1, cid(c) < a2, CLS(cid(c)) == w.classes.cid(pa.ChunkedArray), COL_TBL(cid(c)) == oid, COL_IDX(cid(c)) == c))))
        st.assume(z3.ForAll([c, c2], z3.Implies(z3.And(rng, c2 >= 0, c2 < n, c != c2), cid(c) != cid(c2))))
        return ex.new_seq(st, list, n, z3.Lambda([c], mkr(cid(c))), elem=pa.ChunkedArray)

    def col_to_pylist(ex, st, args, kw, node):
        """fresh list of the column's values, one per row, in row order"""
        ex.trusted_used.add(A)
        oid = ex.as_ref(st, args[0], node)
        t = COL_TBL(oid)
        i = z3.Int(fresh_name("ci"))
        return ex.new_seq(st, list, TBL_NROWS(t), z3.Lambda([i], ROW_CELL(TBL_ROW(t, i), COL_IDX(oid))), elem=None)

    w.handlers["pyarrow.lib.ChunkedArray.to_pylist"] = col_to_pylist

    def table_len(ex, st, args, kw, node):
        oid = ex.as_ref(st, args[0], node)
        return Val(mki(TBL_NROWS(oid)), int)

    w.handlers["pyarrow.lib.Table.__len__"] = table_len

    # spec functions ------------------------------------------------------------------------------
    def sf(name):
        def deco(f):
            w.specfuns[name] = SpecFun(name, f)
            return f

        return deco

    @sf("nrows")
    def _nrows(ex, st, args):
        return Val(mki(TBL_NROWS(V.rid(args[0].t))), int)

    @sf("ncols")
    def _ncols(ex, st, args):
        return Val(mki(TBL_NCOLS(V.rid(args[0].t))), int)

    @sf("row")
    def _row(ex, st, args):
        return Val(TBL_ROW(V.rid(args[0].t), ex.as_int(st, args[1])), None)

    @sf("colname")
    def _colname(ex, st, args):
        return Val(TBL_NAME(V.rid(args[0].t), ex.as_int(st, args[1])), None)

    @sf("cell")
    def _cell(ex, st, args):
        return Val(ROW_CELL(args[0].t, ex.as_int(st, args[1])), None)

    @sf("distinct_names")
    def _distinct(ex, st, args):
        return Val(mkb(names_distinct(V.rid(args[0].t))), bool)

    @sf("wf_table")
    def _wf(ex, st, args):
        return Val(mkb(z3.Or(V.is_none(args[0].t), wf_table(V.rid(args[0].t)))), bool)

    @sf("dict_len")
    def _dict_len(ex, st, args):
        return Val(mki(st.arr("$klen")[V.rid(args[0].t)]), int)

    @sf("dict_key")
    def _dict_key(ex, st, args):
        return Val(st.arr("$kel")[V.rid(args[0].t)][ex.as_int(st, args[1])], None)

    @sf("dict_at")
    def _dict_at(ex, st, args):
        return Val(st.arr("$dmap")[V.rid(args[0].t)][args[1].t], None)

    @sf("seq_len")
    def _seq_len(ex, st, args):
        return Val(mki(st.arr("$len")[V.rid(args[0].t)]), int)

    @sf("seq_at")
    def _seq_at(ex, st, args):
        return Val(st.arr("$el")[V.rid(args[0].t)][ex.as_int(st, args[1])], None)

    @sf("is_tuple")
    def _is_tuple(ex, st, args):
        return Val(mkb(z3.And(V.is_r(args[0].t), w.classes.isa(CLS(V.rid(args[0].t)), tuple))), bool)

    @sf("is_list")
    def _is_list(ex, st, args):
        return Val(mkb(z3.And(V.is_r(args[0].t), w.classes.isa(CLS(V.rid(args[0].t)), list))), bool)

    @sf("is_dict")
    def _is_dict(ex, st, args):
        return Val(mkb(z3.And(V.is_r(args[0].t), w.classes.isa(CLS(V.rid(args[0].t)), dict))), bool)
