"""A-ARROW: assumed contracts of the pyarrow calls made by fakesnow (pyarrow 25, see DESIGN 3.4).

Abstract view of an (immutable) pyarrow.Table t:
    tbl_rows(t)  : Seq of row ids            tbl_ncols(t) : Int >= 0
    tbl_names(t) : Seq of column names (str) row_cells(r) : Seq of the cell values of row r, one per column
"""
from __future__ import annotations

import z3

from pyvc.sorts import CLS, I, NONE, S, SeqV, V, mkb, mki, mkr, mks
from pyvc.state import Val, fresh_name
from pyvc.types import DictT, ListT, NoneType, Opt, SeqRaw, TupleT
from pyvc.world import ClassSchema, SpecFun

TBL_ROWS = z3.Function("tbl_rows", I, SeqV)
TBL_NCOLS = z3.Function("tbl_ncols", I, I)
TBL_NAMES = z3.Function("tbl_names", I, SeqV)
ROW_CELLS = z3.Function("row_cells", V, SeqV)
NDISTINCT = z3.Function("n_distinct_names", SeqV, I)


def names_distinct(names):
    a, b = z3.Ints("nd_a nd_b")
    return z3.ForAll([a, b], z3.Implies(z3.And(0 <= a, a < b, b < z3.Length(names)), names[a] != names[b]))


def wf_table(t):
    """well-formedness facts of every table (assumed whenever a table is touched)"""
    j = z3.Int("wf_j")
    rows = TBL_ROWS(t)
    return z3.And(
        TBL_NCOLS(t) >= 0,
        z3.Length(TBL_NAMES(t)) == TBL_NCOLS(t),
        z3.ForAll([j], z3.Implies(z3.And(j >= 0, j < z3.Length(rows)), z3.Length(ROW_CELLS(rows[j])) == TBL_NCOLS(t))),
        NDISTINCT(TBL_NAMES(t)) <= TBL_NCOLS(t),
        NDISTINCT(TBL_NAMES(t)) >= z3.If(TBL_NCOLS(t) > 0, 1, 0),
        (NDISTINCT(TBL_NAMES(t)) == TBL_NCOLS(t)) == names_distinct(TBL_NAMES(t)),
    )


def install(w):
    import pyarrow as pa

    A = "A-ARROW (pyarrow.Table.slice/to_pylist/num_rows/num_columns as documented; to_pylist builds one dict per row by inserting (name, value) in column order)"

    def table_truthy(ex, st, oid):
        return z3.Length(TBL_ROWS(oid)) > 0

    w.schemas[pa.Table] = ClassSchema(pa.Table, fields={}, truthy=table_truthy)

    def attr(name):
        def deco(f):
            w.attr_handlers[(pa.Table, name)] = f
            return f

        return deco

    @attr("num_rows")
    def _num_rows(ex, st, obj, node):
        ex.trusted_used.add(A)
        oid = V.rid(obj.t)
        st.assume(wf_table(oid))
        return Val(mki(z3.Length(TBL_ROWS(oid))), int)

    @attr("num_columns")
    def _num_cols(ex, st, obj, node):
        ex.trusted_used.add(A)
        oid = V.rid(obj.t)
        st.assume(wf_table(oid))
        return Val(mki(TBL_NCOLS(oid)), int)

    def slice_(ex, st, args, kw, node):
        ex.trusted_used.add(A)
        t = args[0]
        off = kw.get("offset", args[1] if len(args) > 1 else w.const(0))
        ln = kw.get("length", args[2] if len(args) > 2 else w.const(None))
        oid = ex.as_ref(st, t, node)
        st.assume(wf_table(oid))
        o = ex.as_int(st, off, node)
        # pyarrow raises on negative offset; fakesnow never passes one: safety obligation
        ex.oblige(st, o >= 0, f"safe.slice.offset@{node.lineno}", "safe", node, "Table.slice offset >= 0")
        st.assume(o >= 0)
        rows = TBL_ROWS(oid)
        n = z3.Length(rows)
        res = ex.new_object(st, pa.Table)
        rid = V.rid(res.t)
        if ln.ty is NoneType:
            cnt = z3.If(n - o < 0, z3.IntVal(0), n - o)
        else:
            l_ = ex.as_int(st, ln, node)
            ex.oblige(st, l_ >= 0, f"safe.slice.length@{node.lineno}", "safe", node, "Table.slice length >= 0")
            st.assume(l_ >= 0)
            avail = z3.If(n - o < 0, z3.IntVal(0), n - o)
            cnt = z3.If(l_ < avail, l_, avail)
        start = z3.If(o > n, n, o)
        st.assume(TBL_ROWS(rid) == z3.Extract(rows, start, cnt))
        st.assume(TBL_NCOLS(rid) == TBL_NCOLS(oid))
        st.assume(TBL_NAMES(rid) == TBL_NAMES(oid))
        st.assume(wf_table(rid))
        return res

    w.handlers["pyarrow.lib.Table.slice"] = slice_

    def to_pylist(ex, st, args, kw, node):
        """list of fresh dicts; dict j has the distinct names as keys (first-occurrence order) and, when all names
        are distinct, maps names[c] to cell c of row j"""
        ex.trusted_used.add(A)
        t = args[0]
        oid = ex.as_ref(st, t, node)
        st.assume(wf_table(oid))
        rows = TBL_ROWS(oid)
        names = TBL_NAMES(oid)
        n = z3.Length(rows)
        pre_alloc = ex.alloc_term(st)
        L = ex.new_seq(st, list, ex.fresh("pylist", SeqV), elem=DictT(str, None))
        Ls = st.arr("$seq")[V.rid(L.t)]
        st.assume(z3.Length(Ls) == n)
        did = z3.Function(fresh_name("pydict"), I, I)
        j, c, o = z3.Ints(fresh_name("tj") + " " + fresh_name("tc") + " " + fresh_name("to"))
        a1 = ex.alloc_term(st)
        ex.bump_alloc(st)
        a2 = ex.alloc_term(st)
        rng = z3.And(j >= 0, j < n)
        j2 = z3.Int(fresh_name("tj2"))
        st.assume(z3.ForAll([j], z3.Implies(rng, z3.And(Ls[j] == mkr(did(j)), did(j) >= a1, did(j) < a2, CLS(did(j)) == w.classes.cid(dict)))))
        st.assume(z3.ForAll([j, j2], z3.Implies(z3.And(rng, j2 >= 0, j2 < n, j != j2), did(j) != did(j2))))
        # new heap arrays for dict contents: old objects unchanged
        for nm in ("$dkeys", "$dmap", "$dhas"):
            old = st.arr(nm)
            new = ex.fresh(f"H_{nm}", old.sort())
            st.assume(z3.ForAll([o], z3.Implies(o < pre_alloc, new[o] == old[o])))
            st.assume(new[V.rid(L.t)] == old[V.rid(L.t)])
            st.heap[nm] = new
        dk, dm, dh = st.heap["$dkeys"], st.heap["$dmap"], st.heap["$dhas"]
        st.assume(z3.ForAll([j], z3.Implies(rng, z3.Length(dk[did(j)]) == NDISTINCT(names))))
        st.assume(
            z3.Implies(
                names_distinct(names),
                z3.ForAll(
                    [j],
                    z3.Implies(
                        rng,
                        z3.And(
                            dk[did(j)] == names,
                            z3.ForAll(
                                [c],
                                z3.Implies(
                                    z3.And(c >= 0, c < z3.Length(names)),
                                    z3.And(dm[did(j)][names[c]] == ROW_CELLS(rows[j])[c], dh[did(j)][names[c]]),
                                ),
                            ),
                        ),
                    ),
                ),
            )
        )
        L.parts = None
        return L

    w.handlers["pyarrow.lib.Table.to_pylist"] = to_pylist

    def table_len(ex, st, args, kw, node):
        oid = ex.as_ref(st, args[0], node)
        return Val(mki(z3.Length(TBL_ROWS(oid))), int)

    w.handlers["pyarrow.lib.Table.__len__"] = table_len

    # spec functions ------------------------------------------------------------------------------
    def sf(name):
        def deco(f):
            w.specfuns[name] = SpecFun(name, f)
            return f

        return deco

    @sf("nrows")
    def _nrows(ex, st, args):
        return Val(mki(z3.Length(TBL_ROWS(V.rid(args[0].t)))), int)

    @sf("ncols")
    def _ncols(ex, st, args):
        return Val(mki(TBL_NCOLS(V.rid(args[0].t))), int)

    @sf("rows")
    def _rows(ex, st, args):
        return Val(TBL_ROWS(V.rid(args[0].t)), SeqRaw(None))

    @sf("names")
    def _names(ex, st, args):
        return Val(TBL_NAMES(V.rid(args[0].t)), SeqRaw(str))

    @sf("cells")
    def _cells(ex, st, args):
        return Val(ROW_CELLS(args[0].t), SeqRaw(None))

    @sf("distinct_names")
    def _distinct(ex, st, args):
        return Val(mkb(names_distinct(TBL_NAMES(V.rid(args[0].t)))), bool)

    @sf("wf_table")
    def _wf(ex, st, args):
        return Val(mkb(z3.Or(V.is_none(args[0].t), wf_table(V.rid(args[0].t)))), bool)

    @sf("seq")
    def _seq(ex, st, args):
        return Val(st.arr("$seq")[V.rid(args[0].t)], SeqRaw(None))

    @sf("dict_keys")
    def _dict_keys(ex, st, args):
        return Val(st.arr("$dkeys")[V.rid(args[0].t)], SeqRaw(None))

    @sf("dict_at")
    def _dict_at(ex, st, args):
        return Val(st.arr("$dmap")[V.rid(args[0].t)][args[1].t], None)

    @sf("is_tuple")
    def _is_tuple(ex, st, args):
        return Val(mkb(z3.And(V.is_r(args[0].t), w.classes.isa(CLS(V.rid(args[0].t)), tuple))), bool)

    @sf("is_dict")
    def _is_dict(ex, st, args):
        return Val(mkb(z3.And(V.is_r(args[0].t), w.classes.isa(CLS(V.rid(args[0].t)), dict))), bool)
