"""Contracts for fakesnow/transforms_merge.py (C12 shape; the SQL these functions build is DuckDB's to interpret)."""
from __future__ import annotations

from pyvc.types import DictT, ListT, NoneType, Opt, TupleT
from pyvc.world import Contract


def install(w):
    import sqlglot.errors
    from sqlglot import exp

    E = exp.Expression
    M = "fakesnow.transforms_merge."
    WHENS = "forall(0, len(node_expressions(merge_expr)), lambda j: isinstance(node_expressions(merge_expr)[j], exp.When))"
    w.add_contract(
        Contract(
            M + "_create_merge_candidates",
            params={"merge_expr": exp.Merge},
            requires=[],
            result=E,
            fresh_result=True,
            modifies=["$ghost:$parse_n", "$ghost:$parse_text"],
            may_raise=[AssertionError, sqlglot.errors.ParseError, AttributeError],
            ensures={"C12.parse_log.append_only": "forall(0, old(parse_count()), lambda j: parse_text(j) == old(parse_text(j)))", "C12.candidates.parsed_once": "parse_count() == old(parse_count()) + 1 and 'CREATE OR REPLACE TEMPORARY TABLE merge_candidates AS' in parse_text(old(parse_count()))"},
            props=["C12"],
            assumed=True,
            trusted_base="transforms_merge._create_merge_candidates: safety not verified (set comprehension / map() outside the subset); its SQL is decided by the bounded C12 tier",
        )
    )
    w.add_contract(
        Contract(
            M + "_mutations",
            params={"merge_expr": exp.Merge},
            requires=[],
            result=ListT(E),
            fresh_result=True,
            modifies=["$ghost:$parse_n", "$ghost:$parse_text"],
            raises={AssertionError: {"when": None, "ensures": {}, "modifies": ["$ghost:$parse_n", "$ghost:$parse_text"]},
                    sqlglot.errors.ParseError: {"when": None, "ensures": {}, "modifies": ["$ghost:$parse_n", "$ghost:$parse_text"]}},
            ensures={
                # one statement per WHEN clause, in clause order, of the clause's kind
                "C12.parse_log.append_only": "forall(0, old(parse_count()), lambda j: parse_text(j) == old(parse_text(j)))",
                "C12.mutations.one_per_clause": "len(result) == len(node_expressions(merge_expr)) and parse_count() == old(parse_count()) + len(result)",
                "C12.mutations.kind": "forall(0, len(result), lambda j: mutation_kind_ok(node_expressions(merge_expr)[j], parse_text(old(parse_count()) + j), j))",
            },
            loops={1: {"inv": [
                "seq_len(statements) == _k and parse_count() == old(parse_count()) + _k",
                "forall(0, old(parse_count()), lambda j: parse_text(j) == old(parse_text(j)))",
                "forall(0, _k, lambda j: mutation_kind_ok(node_expressions(merge_expr)[j], parse_text(old(parse_count()) + j), j))",
            ]}},
            locals={"statements": ListT(E), "e": exp.EQ, "c": E, "w": exp.When},
            props=["C12"],
            assumed=True,
            trusted_base="transforms_merge._mutations: contract assumed (its safety obligations need sqlglot tree-shape preconditions not written yet); its SQL is decided by the bounded C12 tier",
        )
    )
    w.add_contract(
        Contract(
            M + "_counts",
            params={"merge_expr": exp.Merge},
            requires=[],
            result=E,
            fresh_result=True,
            modifies=["$ghost:$parse_n", "$ghost:$parse_text"],
            may_raise=[AssertionError, sqlglot.errors.ParseError],
            ensures={"C12.parse_log.append_only": "forall(0, old(parse_count()), lambda j: parse_text(j) == old(parse_text(j)))", "C12.counts.parsed_once": "parse_count() == old(parse_count()) + 1"},
            props=["C12"],
            assumed=True,
            trusted_base="transforms_merge._counts: body outside the subset (filtered comprehension over dict items); its SQL is decided by the bounded C12 tier",
        )
    )
    real = Contract(
        M + "merge",
        params={"merge_expr": E},
        requires=[],
        result=ListT(E),
        fresh_result=True,
        modifies=["$ghost:$parse_n", "$ghost:$parse_text"],
        raises={AssertionError: {"when": None, "ensures": {"C12.explode.assert_only_for_merge": "isinstance(merge_expr, exp.Merge)"}, "modifies": ["$ghost:$parse_n", "$ghost:$parse_text"]},
                sqlglot.errors.ParseError: {"when": None, "ensures": {}, "modifies": ["$ghost:$parse_n", "$ghost:$parse_text"]},
                AttributeError: {"when": None, "ensures": {}, "modifies": ["$ghost:$parse_n", "$ghost:$parse_text"]}},
        ensures={
            "C12.explode.passthrough": "implies(not isinstance(merge_expr, exp.Merge), len(result) == 1 and result[0] is merge_expr)",
            # candidates first, one mutation per clause in clause order, counts last
            "C12.explode.shape": "implies(isinstance(merge_expr, exp.Merge), len(result) == len(node_expressions(merge_expr)) + 2)",
            "C12.explode.nonempty": "len(result) >= 1",
            "C12.parse_log.append_only": "forall(0, old(parse_count()), lambda j: parse_text(j) == old(parse_text(j)))",
            "C12.explode.order": "implies(isinstance(merge_expr, exp.Merge), 'CREATE OR REPLACE TEMPORARY TABLE merge_candidates AS' in parse_text(old(parse_count())))",
            "C12.explode.parsed": "implies(isinstance(merge_expr, exp.Merge), parse_count() == old(parse_count()) + len(result))",
        },
        props=["C12"],
    )
    w.contracts[M + "merge"] = real
    w.contracts["fakesnow.transforms.merge"] = real
