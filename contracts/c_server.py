"""Contracts for fakesnow/server.py (C17)."""
from __future__ import annotations

from pyvc.types import DictT, ListT, NoneType, Opt, TupleT
from pyvc.world import ClassSchema, Contract


def install(w):
    from starlette.requests import Request

    import fakesnow.conn
    import fakesnow.server as srv

    Conn = fakesnow.conn.FakeSnowflakeConnection
    w.classes.add(Request)
    w.classes.add(srv.ServerError)
    # the module-level token -> connection map is mutable state: symbolic, never read from the real object
    w.symbolic_global(srv.sessions, DictT(str, Conn))
    w.schemas[Request] = ClassSchema(Request, fields={"headers": DictT(str, str), "query_params": DictT(str, str)})
    w.schemas[srv.ServerError] = ClassSchema(srv.ServerError, fields={"status_code": int, "code": str, "message": str})

    AUTH = "old(request.headers.get('Authorization'))"
    w.add_contract(
        Contract(
            "fakesnow.server.to_conn",
            params={"request": Request},
            requires=[],
            result=Conn,
            raises={
                srv.ServerError: {
                    # refused exactly when the header is missing/empty or the token it carries is unknown
                    "when": f"not {AUTH} or not old(sessions.get({AUTH}[17:-1]))",
                    "ensures": {
                        "C17.token.status": "exc.status_code == 401",
                        "C17.token.code": f"exc.code == ('390103' if not {AUTH} else '390104')",
                    },
                    "modifies": [],
                }
            },
            modifies=[],
            ensures={
                # the connection mapped to the token between 'Snowflake Token="' and the closing quote
                "C17.token.lookup": f"result is old(sessions.get({AUTH}[17:-1]))",
                "C17.token.slice": f"forall(0, 1, lambda z: implies({AUTH}.startswith('Snowflake Token=\\\"') and {AUTH}.endswith('\\\"') and len({AUTH}) >= 18, 'Snowflake Token=\\\"' + {AUTH}[17:-1] + '\\\"' == {AUTH}))",
            },
            props=["C17"],
        )
    )
