"""Contracts for fakesnow/checks.py and fakesnow/expr.py (C02 identifier equality, C03 'needs a database/schema', C04 key_command)."""
from __future__ import annotations

import z3

from pyvc.sorts import CLS, I, S, V, mkb, mki, mks
from pyvc.state import Val
from pyvc.types import DictT, ListT, NoneType, Opt, TupleT
from pyvc.world import Contract, SpecFun


def install(w):
    from sqlglot import exp

    E = exp.Expression

    # N(id) = this if quoted else upper(this): Snowflake's identifier normalisation (property C02)
    NORM = "(arg({x}, 'this') if arg({x}, 'quoted') else upper(arg({x}, 'this')))"
    w.add_contract(
        Contract(
            "fakesnow.checks.equal",
            params={"left": exp.Identifier, "right": exp.Identifier},
            requires=["isinstance(arg(left, 'this'), str)", "isinstance(arg(right, 'this'), str)"],
            result=bool,
            modifies=[],
            pure=True,
            ensures={"C02.equal": "result == (" + NORM.format(x="left") + " == " + NORM.format(x="right") + ")"},
            props=["C02", "C12"],
        )
    )

    # ---- key_command: statement classification (C04).  KIND = args.get('kind')
    KC = (
        "(upper(key_of(expression)) + ' ' + upper(arg(expression, 'kind')) if isinstance(arg(expression, 'kind'), str) else "
        "(upper(key_of(expression)) + ' ' + upper(node_name(arg(expression, 'kind'))) if isinstance(arg(expression, 'kind'), exp.Var) else "
        "(upper(arg(expression, 'this')) if isinstance(expression, exp.Command) and isinstance(arg(expression, 'this'), str) else upper(key_of(expression)))))"
    )
    def _keycmd(ex, st, args):
        from pyvc.spec import eval_nested

        return eval_nested(ex, st, KC, {"expression": args[0], "exp": w.const(exp)})

    w.specfuns["keycmd"] = SpecFun("keycmd", _keycmd)

    def _is_dml_count(ex, st, args):
        """statement whose rowcount is DuckDB's affected-row count: INSERT/UPDATE/DELETE without session-changing args"""
        from pyvc.spec import eval_nested

        src = ("not (arg(expression, 'set_database') or arg(expression, 'set_schema') or arg(expression, 'create_db_name')) "
               "and keycmd(expression) in ('INSERT', 'UPDATE', 'DELETE')")
        return eval_nested(ex, st, src, {"expression": args[0], "exp": w.const(exp)})

    w.specfuns["is_dml_count"] = SpecFun("is_dml_count", _is_dml_count)

    w.add_contract(
        Contract(
            "fakesnow.expr.key_command",
            params={"expression": E},
            requires=[],
            result=str,
            modifies=[],
            pure=True,
            ensures={
                "C04.key_command.def": "result == keycmd(expression)",
                # the classification the DML / DDL branches of _execute rely on (spec table of the property)
                "C04.key_command.dml": "implies(arg(expression, 'kind') is None, "
                "(implies(cls_is(expression, exp.Insert), result == 'INSERT') and implies(cls_is(expression, exp.Update), result == 'UPDATE') "
                "and implies(cls_is(expression, exp.Delete), result == 'DELETE') and implies(cls_is(expression, exp.Merge), result == 'MERGE') "
                "and implies(cls_is(expression, exp.Select), result == 'SELECT')))",
                "C04.key_command.ddl": "implies(isinstance(arg(expression, 'kind'), str), "
                "(implies(cls_is(expression, exp.Create), result == 'CREATE ' + upper(arg(expression, 'kind'))) "
                "and implies(cls_is(expression, exp.Drop), result == 'DROP ' + upper(arg(expression, 'kind'))) "
                "and implies(cls_is(expression, exp.Alter), result == 'ALTER ' + upper(arg(expression, 'kind')))))",
                "C04.key_command.exclusive": "implies(isinstance(arg(expression, 'kind'), str) and (cls_is(expression, exp.Create) or cls_is(expression, exp.Drop) or cls_is(expression, exp.Alter)), "
                "result != 'INSERT' and result != 'UPDATE' and result != 'DELETE')",
            },
            props=["C04", "C03", "C07"],
        )
    )

    # ---- is_unqualified_table_expression: "needs a current database / schema" for the first table of the statement
    NODE = "find_table(expression)"
    PK = f"arg(node_parent({NODE}), 'kind')"
    STRKIND = f"({PK} and isinstance({PK}, str))"
    USEKIND = f"(not {STRKIND} and key_of(node_parent({NODE})) == 'use' and {PK} and isinstance({PK}, exp.Var) and node_name({PK}))"
    NOCAT = f"(not arg({NODE}, 'catalog'))"
    NODB = f"(not arg({NODE}, 'db'))"
    BAD = (
        f"({NODE} is not None and (node_parent({NODE}) is None or "
        f"({STRKIND} and upper({PK}) not in ('DATABASE', 'SCHEMA', 'TABLE', 'VIEW')) or "
        f"({USEKIND} and upper(node_name({PK})) not in ('DATABASE', 'SCHEMA'))))"
    )
    NEEDS_DB = (
        f"(False if {NODE} is None else (({NOCAT} if upper({PK}) != 'DATABASE' else False) if {STRKIND} else "
        f"((False if upper(node_name({PK})) == 'DATABASE' else {NODB}) if {USEKIND} else {NOCAT})))"
    )
    NEEDS_SCHEMA = (
        f"(False if {NODE} is None else (({NODB} if upper({PK}) in ('TABLE', 'VIEW') else False) if {STRKIND} else "
        f"(False if {USEKIND} else {NODB})))"
    )
    w.unq_specs = {"bad": BAD, "needs_db": NEEDS_DB, "needs_schema": NEEDS_SCHEMA}
    w.add_contract(
        Contract(
            "fakesnow.checks.is_unqualified_table_expression",
            params={"expression": E},
            requires=[],
            result=TupleT(items=[bool, bool]),
            modifies=[],
            raises={AssertionError: {"when": BAD, "ensures": {}, "modifies": []}},
            ensures={
                "C03.needs.database": f"result[0] == {NEEDS_DB}",
                "C03.needs.schema": f"result[1] == {NEEDS_SCHEMA}",
                "C03.needs.bools": "isinstance(result[0], bool) and isinstance(result[1], bool)",
            },
            props=["C03", "C07"],
        )
    )
