"""(stub)"""


def install(w):
    pass
