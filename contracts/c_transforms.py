"""Contracts for node-level functions of fakesnow/transforms.py (the ones that carry C02 / C03 / C14 and establish parts of
A-WF).  Each is applied by `Expression.transform` to every node of the statement; the contract is per node."""
from __future__ import annotations

from pyvc.types import NoneType, Opt
from pyvc.world import Contract


def install(w):
    import sqlglot.errors as sqlglot_errors
    from sqlglot import exp

    E = exp.Expression
    UNQ = "(isinstance(expression, exp.Identifier) and not arg(expression, 'quoted') and isinstance(arg(expression, 'this'), str))"
    w.add_contract(
        Contract(
            "fakesnow.transforms.upper_case_unquoted_identifiers",
            params={"expression": E},
            # field shape of parsed identifiers (A-SQLGLOT 1): `quoted` is a bool or absent
            requires=["implies(isinstance(expression, exp.Identifier), arg(expression, 'quoted') is None or isinstance(arg(expression, 'quoted'), bool))"],
            result=E,
            modifies=[],
            ensures={
                # every other node is handed back untouched (the very same object)
                "C02.upper.identity": f"implies(not old({UNQ}), result is expression)",
                # an unquoted identifier becomes a new identifier spelled in upper case, still unquoted; the input node is not changed
                "C02.upper.fresh": f"implies(old({UNQ}), is_fresh(result) and same_class(result, expression))",
                "C02.upper.text": f"implies(old({UNQ}), arg(result, 'this') == upper(old(arg(expression, 'this'))))",
                "C02.upper.unquoted": f"implies(old({UNQ}), not arg(result, 'quoted'))",
                "C02.upper.input_unchanged": "arg(expression, 'this') == old(arg(expression, 'this')) and arg(expression, 'quoted') == old(arg(expression, 'quoted'))",
            },
            props=["C02"],
        )
    )

    USE = ("(isinstance(expression, exp.Use) and bool(arg(expression, 'kind')) and isinstance(arg(expression, 'kind'), exp.Var) and bool(node_name(arg(expression, 'kind'))) "
           "and upper(node_name(arg(expression, 'kind'))) in ('SCHEMA', 'DATABASE'))")
    ISDB = "(upper(node_name(arg(expression, 'kind'))) == 'DATABASE')"
    THIS = "arg(expression, 'this')"
    w.add_contract(
        Contract(
            "fakesnow.transforms.set_schema",
            params={"expression": E, "current_database": (Opt(str), None)},
            join_outcomes=False,
            # field shapes of a parsed USE (A-SQLGLOT 1, Appendix A): `this` is a Table node (or absent), its `db` an Identifier (or absent)
            requires=[
                f"implies(isinstance(expression, exp.Use) and bool({THIS}), isinstance({THIS}, exp.Expression))",
                f"implies(isinstance(expression, exp.Use) and bool({THIS}) and bool(arg({THIS}, 'db')), isinstance(arg({THIS}, 'db'), exp.Expression))",
            ],
            result=E,
            modifies=[],
            raises={AssertionError: {"when": None, "ensures": {"C03.set_schema.assert_only_use": USE}, "modifies": []}},
            ensures={
                "C03.set_schema.identity": f"implies(not old({USE}), result is expression)",
                "C03.set_schema.command": f"implies(old({USE}), is_fresh(result) and cls_is(result, exp.Command) and arg(result, 'this') == 'SET')",
                # USE DATABASE d: DuckDB goes to d.main, the session's database becomes d, no schema is named
                "C03.set_schema.database": f"implies(old({USE}) and old({ISDB}), arg(result, 'set_database') == old(node_name({THIS})) and not has_arg(result, 'set_schema') "
                f"and node_name(arg(result, 'expression')) == \"schema = '\" + old(node_name({THIS})) + \".main'\")",
                # USE SCHEMA [db.]s: the schema is s; the database is the qualifier when there is one, else the session's
                "C03.set_schema.schema": f"implies(old({USE}) and not old({ISDB}), arg(result, 'set_schema') == old(node_name({THIS})))",
                "C03.set_schema.schema_db": f"implies(old({USE}) and not old({ISDB}), "
                f"(arg(result, 'set_database') == old(node_name(arg({THIS}, 'db'))) if old(bool(arg({THIS}, 'db'))) else arg(result, 'set_database') is None))",
                # (with neither a qualifier nor a session database the property wants 90105; what is generated then is a known finding of C03)
                "C03.set_schema.schema_text.qualified": f"implies(old({USE}) and not old({ISDB}) and old(bool(arg({THIS}, 'db'))), node_name(arg(result, 'expression')) == "
                f"\"schema = '\" + old(node_name(arg({THIS}, 'db'))) + '.' + old(node_name({THIS})) + \"'\")",
                "C03.set_schema.schema_text.session": f"implies(old({USE}) and not old({ISDB}) and not old(bool(arg({THIS}, 'db'))) and bool(current_database), node_name(arg(result, 'expression')) == "
                f"\"schema = '\" + current_database + '.' + old(node_name({THIS})) + \"'\")",
                # A-WF: the bookkeeping arguments are strings (or absent) and no other bookkeeping argument is attached
                "WF.set_schema.shapes": f"implies(old({USE}), (arg(result, 'set_database') is None or isinstance(arg(result, 'set_database'), str)) and (arg(result, 'set_schema') is None or isinstance(arg(result, 'set_schema'), str)) "
                "and not has_arg(result, 'create_db_name') and not has_arg(result, 'table_comment') and not has_arg(result, 'text_lengths') and not has_arg(result, 'seed'))",
            },
            props=["C03", "C02"],
        )
    )

    import pathlib

    CD = "(isinstance(expression, exp.Create) and upper(str(arg(expression, 'kind'))) == 'DATABASE')"
    NAME = "old(arg(find_ident(expression), 'this'))"
    w.add_contract(
        Contract(
            "fakesnow.transforms.create_database",
            params={"expression": E, "db_path": (Opt(pathlib.Path), None)},
            # field shape (A-SQLGLOT 1): an Identifier's `this` is a str
            requires=[f"implies({CD} and find_ident(expression) is not None, isinstance(arg(find_ident(expression), 'this'), str))"],
            result=E,
            modifies=[],
            raises={AssertionError: {"when": None, "ensures": {"C14.create_database.assert_only_nameless": f"{CD} and find_ident(expression) is None"}, "modifies": []}},
            ensures={
                "C14.create_database.identity": f"implies(not old({CD}), result is expression)",
                "C14.create_database.command": f"implies(old({CD}), is_fresh(result) and cls_is(result, exp.Command) and arg(result, 'this') == 'ATTACH' and arg(result, 'create_db_name') == {NAME})",
                # C14.file / C18: a database created by statement lives in the same file as one created by connect: db_file(db_path, name)
                "C14.create_database.file": f"implies(old({CD}), node_name(arg(result, 'expression')) == ('IF NOT EXISTS ' if old(arg(expression, 'exists')) else '') + \"DATABASE '\" + db_file(db_path, {NAME}) + \"' AS \" + {NAME})",
                "WF.create_database.shapes": f"implies(old({CD}), isinstance(arg(result, 'create_db_name'), str) and not has_arg(result, 'set_database') and not has_arg(result, 'set_schema') "
                "and not has_arg(result, 'table_comment') and not has_arg(result, 'text_lengths') and not has_arg(result, 'seed'))",
            },
            props=["C14", "C18", "C03"],
        )
    )

    from pyvc.types import ListT, TupleT

    CR = "(isinstance(expression, exp.Create) and find_table(expression) is not None)"
    CO = "(isinstance(expression, exp.Comment) and bool(arg(expression, 'expression')) and find_table(expression) is not None)"
    TC = "arg(result, 'table_comment')"
    w.add_contract(
        Contract(
            "fakesnow.transforms.extract_comment_on_table",
            params={"expression": E},
            # field shapes (A-SQLGLOT 1): Create.properties is a Properties node or absent; Comment.expression is a Literal
            requires=[
                "implies(isinstance(expression, exp.Create) and bool(arg(expression, 'properties')), isinstance(arg(expression, 'properties'), exp.Properties))",
                "implies(isinstance(expression, exp.Comment) and bool(arg(expression, 'expression')), isinstance(arg(expression, 'expression'), exp.Expression))",
            ],
            result=E,
            # the kept properties are re-parented to the copy (Expression.set on a list): parent pointers may change, nothing else
            modifies=["*.parent"],
            ensures={
                # COMMENT ON TABLE t IS 'c': nothing is sent to DuckDB but the no-op, and (t, 'c') is recorded
                "C09.extract.comment_on": f"implies(not isinstance(expression, exp.Create) and {CO}, is_fresh(result) and is_tuple({TC}) and seq_len({TC}) == 2 "
                f"and seq_at({TC}, 0) is old(find_table(expression)) and seq_at({TC}, 1) is old(arg(arg(expression, 'expression'), 'this')))",
                # CREATE TABLE ... COMMENT = 'c': the comment recorded is one the statement declares, for the statement's own table; the input tree is not changed
                "C09.extract.create": f"implies({CR} and bool(old(arg(expression, 'properties'))) and has_arg(result, 'table_comment') and result is not expression, is_tuple({TC}) and seq_len({TC}) == 2 and seq_at({TC}, 0) is old(find_table(expression)))",
                "C09.extract.identity": "implies(not isinstance(expression, (exp.Create, exp.Comment, exp.Alter)), result is expression)",
            },
            props=["C09"],
        )
    )

    DT = ("(isinstance(expression, exp.Describe) and bool(arg(expression, 'kind')) and isinstance(arg(expression, 'kind'), str) and upper(arg(expression, 'kind')) in ('TABLE', 'VIEW') "
          "and find_table(expression) is not None)")
    TB = "find_table(expression)"
    CAT = f"({TB}.catalog or current_database)"
    SCH = f"({TB}.db or current_schema)"
    w.add_contract(
        Contract(
            "fakesnow.transforms.describe_table",
            params={"expression": E, "current_database": (Opt(str), None), "current_schema": (Opt(str), None)},
            requires=[],
            result=E,
            modifies=["$ghost:$parse_n", "$ghost:$parse_text"],
            may_raise=[sqlglot_errors.ParseError],
            ensures={
                "C03.describe.identity": f"implies(not old({DT}), result is expression and parse_count() == old(parse_count()))",
                # DESCRIBE TABLE/VIEW [c.][s.]t asks the column catalog for exactly c.s.t, the missing parts filled from the session
                "C03.describe.resolves": f"implies(old({DT}) and not (bool(old({SCH})) and upper(old({SCH})) == 'INFORMATION_SCHEMA'), parse_count() == old(parse_count()) + 1 and is_fresh(result) and "
                f"(\"WHERE table_catalog = '\" + str(old({CAT})) + \"' AND table_schema = '\" + str(old({SCH})) + \"' AND table_name = '\" + old({TB}.name) + \"'\") in parse_text(old(parse_count())))",
                "C03.describe.info_schema": f"implies(old({DT}) and bool(old({SCH})) and upper(old({SCH})) == 'INFORMATION_SCHEMA', parse_count() == old(parse_count()) + 1 and "
                f"('FROM (DESCRIBE information_schema.' + old({TB}.name) + ')') in parse_text(old(parse_count())))",
            },
            props=["C03", "C09"],
        )
    )

    SS = "(isinstance(expression, exp.Show) and isinstance(arg(expression, 'this'), str) and upper(arg(expression, 'this')) == 'SCHEMAS')"
    IDN = "(find_ident(expression) is not None and isinstance(arg(find_ident(expression), 'this'), str))"
    DBN = f"(arg(find_ident(expression), 'this') if {IDN} else current_database)"
    w.add_contract(
        Contract(
            "fakesnow.transforms.show_schemas",
            params={"expression": E, "current_database": (Opt(str), None)},
            requires=[],
            result=E,
            modifies=["$ghost:$parse_n", "$ghost:$parse_text"],
            may_raise=[sqlglot_errors.ParseError],
            ensures={
                "C03.show_schemas.identity": f"implies(not old({SS}), result is expression and parse_count() == old(parse_count()))",
                # SHOW SCHEMAS [IN DATABASE d]: the schemata of d, else of the session's database, else of the whole account;
                # fakesnow's / DuckDB's internal catalogs and schemas are always excluded (C09)
                "C03.show_schemas.scope": f"implies(old({SS}) and bool(old({DBN})), parse_count() == old(parse_count()) + 1 and parse_text(old(parse_count())) == SQL_SHOW_SCHEMAS + \" and catalog_name = '\" + old({DBN}) + \"'\")",
                "C03.show_schemas.account": f"implies(old({SS}) and not bool(old({DBN})), parse_count() == old(parse_count()) + 1 and parse_text(old(parse_count())) == SQL_SHOW_SCHEMAS)",
                "C09.show_schemas.hides_internal": "\"where catalog_name not in ('memory', 'system', 'temp') and schema_name not in ('main', 'pg_catalog')\" in SQL_SHOW_SCHEMAS",
            },
            props=["C03", "C09"],
        )
    )

    SO = "(isinstance(expression, exp.Show) and isinstance(arg(expression, 'this'), str) and bool(upper(arg(expression, 'this'))) and upper(arg(expression, 'this')) in ('OBJECTS', 'TABLES'))"
    TBL_ = "find_table(expression)"
    SK = "arg(expression, 'scope_kind')"
    CATALOG = f"(((({TBL_} is not None) and {TBL_}.name) or current_database) if {SK} == 'DATABASE' else (({TBL_}.db or current_database) if ({SK} == 'SCHEMA' and {TBL_} is not None) else None))"
    w.add_contract(
        Contract(
            "fakesnow.transforms.show_objects_tables",
            params={"expression": E, "current_database": (Opt(str), None)},
            # field shape (A-SQLGLOT 1): a parsed SHOW carries the `terse` flag
            requires=[f"implies({SO}, has_arg(expression, 'terse'))"],
            result=E,
            modifies=["$ghost:$parse_n", "$ghost:$parse_text"],
            may_raise=[sqlglot_errors.ParseError],
            ensures={
                "C03.show_objects.identity": f"implies(not old({SO}), result is expression and parse_count() == old(parse_count()))",
                "C03.show_objects.parsed_once": f"implies(old({SO}), parse_count() == old(parse_count()) + 1)",
                # C09: fakesnow's own tables are never listed
                "C09.show_objects.hides_internal": f"implies(old({SO}), \"not (table_schema == 'information_schema' and table_name like '_fs_%%')\" in parse_text(old(parse_count())))",
                # scope: IN DATABASE d / IN SCHEMA [d.]s / the session's database; account-wide only without any of them
                "C03.show_objects.catalog": f"implies(old({SO}) and bool(old({CATALOG})), (\" and table_catalog = '\" + old({CATALOG}) + \"'\") in parse_text(old(parse_count())))",
                "C03.show_objects.schema": f"implies(old({SO}) and old({SK} == 'SCHEMA' and {TBL_} is not None and bool({TBL_}.name)), (\" and table_schema = '\" + old({TBL_}.name) + \"'\") in parse_text(old(parse_count())))",
                "C09.show_objects.tables_only": f"implies(old({SO}) and old(upper(arg(expression, 'this'))) == 'TABLES', \"where table_type = 'BASE TABLE' and \" in parse_text(old(parse_count())))",
            },
            props=["C03", "C09"],
        )
    )

    AL = "arg(result, 'alias')"
    COLS = f"arg({AL}, 'columns')"
    w.add_contract(
        Contract(
            "fakesnow.transforms.values_columns",
            params={"expression": E},
            requires=[],
            result=E,
            modifies=["expression.args.$dmap", "expression.args.$dhas", "*.parent", "$ghost:$treever"],
            ensures={
                "C10.values.same_node": "result is expression",
                # when an alias is attached it names the columns COLUMN1 .. COLUMNn (quoted, i.e. exactly this spelling), n = width of the first row
                "C10.values.names": f"implies(not old(has_arg(expression, 'alias')) and has_arg(result, 'alias') and isinstance({AL}, exp.TableAlias), is_list({COLS}) and "
                f"forall(0, seq_len({COLS}), lambda j: isinstance(seq_at({COLS}, j), exp.Identifier) and arg(seq_at({COLS}, j), 'this') == 'COLUMN' + str(j + 1) and arg(seq_at({COLS}, j), 'quoted') == True))",
                "C10.values.width": f"implies(not old(has_arg(expression, 'alias')) and has_arg(result, 'alias') and isinstance({AL}, exp.TableAlias), "
                f"seq_len({COLS}) == old(seq_len(node_expressions(find_tuple(expression)))))",
            },
            props=["C10"],
        )
    )

    UNIT = "arg(expression, 'unit')"
    DA = (f"(isinstance(expression, exp.DateAdd) and {UNIT} is not None and isinstance(arg({UNIT}, 'this'), str) "
          f"and upper(arg({UNIT}, 'this')) in ('DAY', 'WEEK', 'MONTH', 'QUARTER', 'YEAR') "
          "and isinstance(arg(expression, 'this'), exp.Cast) and arg(arg(arg(expression, 'this'), 'to'), 'this') == exp.DataType.Type.DATE)")
    w.add_contract(
        Contract(
            "fakesnow.transforms.dateadd_date_cast",
            params={"expression": E},
            # field shapes (A-SQLGLOT 1): DateAdd.unit is a Var node or absent; Cast.to is a DataType node
            requires=[
                f"implies(isinstance(expression, exp.DateAdd) and {UNIT} is not None, isinstance({UNIT}, exp.Expression))",
                "implies(isinstance(expression, exp.DateAdd) and isinstance(arg(expression, 'this'), exp.Cast), isinstance(arg(arg(expression, 'this'), 'to'), exp.Expression))",
                # a unit that was parsed is not the empty string
                f"implies(isinstance(expression, exp.DateAdd) and {UNIT} is not None and isinstance(arg({UNIT}, 'this'), str), arg({UNIT}, 'this') != '')",
            ],
            result=E,
            modifies=["*.parent", "$ghost:$treever"],
            ensures={
                # Snowflake: DATEADD of a day-or-larger part to a DATE is a DATE; DuckDB returns a timestamp, so exactly these are cast back
                "C10.dateadd.cast_back": f"implies(old({DA}), is_fresh(result) and cls_is(result, exp.Cast) and arg(result, 'this') is expression "
                "and isinstance(arg(result, 'to'), exp.DataType) and arg(arg(result, 'to'), 'this') == exp.DataType.Type.DATE)",
                "C10.dateadd.else_untouched": f"implies(not old({DA}), result is expression)",
            },
            props=["C10"],
        )
    )


    w.add_contract(
        Contract(
            "fakesnow.transforms.json_extract_precedence",
            params={"expression": E},
            requires=[],
            result=E,
            modifies=["*.parent", "$ghost:$treever"],
            ensures={
                # every JSON path extraction, wherever it stands (operand of any operator, predicate, function argument), is parenthesised
                # so that no DuckDB operator can re-associate it; nothing else is touched
                "C11.precedence.wraps": "implies(isinstance(expression, (exp.JSONExtract, exp.JSONExtractScalar)), is_fresh(result) and cls_is(result, exp.Paren) and arg(result, 'this') is expression)",
                "C11.precedence.else_untouched": "implies(not isinstance(expression, (exp.JSONExtract, exp.JSONExtractScalar)), result is expression)",
            },
            props=["C11"],
        )
    )

    RR = "(isinstance(expression, exp.RegexpReplace) and isinstance(arg(expression, 'expression'), exp.Literal))"
    w.add_contract(
        Contract(
            "fakesnow.transforms.regex_replace",
            params={"expression": E},
            # field shape (A-SQLGLOT 1): a Literal's `this` is a str
            requires=[f"implies({RR}, isinstance(arg(arg(expression, 'expression'), 'this'), str))"],
            result=E,
            modifies=["expression.args.$dmap", "expression.args.$dhas", "expression.args.$klen", "expression.args.$kel", "*.parent", "$ghost:$treever"],
            raises={NotImplementedError: {"when": f"old({RR}) and old(dict_len(expression.args)) > 3", "ensures": {}, "modifies": []}},
            ensures={
                "C10.regex_replace.same_node": "result is expression",
                # the long forms (<position>, <occurrence>, <parameters>) are rejected, never answered: what is answered has at most
                # subject, pattern and replacement, is global, and replaces by '' when no replacement is given
                "C10.regex_replace.global": f"implies(old({RR}), isinstance(arg(result, 'modifiers'), exp.Literal) and arg(arg(result, 'modifiers'), 'this') == 'g')",
                "C10.regex_replace.default_replacement": f"implies(old({RR}) and not old(bool(arg(expression, 'replacement'))), isinstance(arg(result, 'replacement'), exp.Literal) and arg(arg(result, 'replacement'), 'this') == '')",
                "C10.regex_replace.else_untouched": f"implies(not old({RR}), dict_unchanged(expression.args))",
            },
            props=["C10"],
        )
    )

    FV = ("(isinstance(expression, exp.Cast) and isinstance(arg(expression, 'this'), exp.Column) and upper(node_name(arg(expression, 'this'))) == 'VALUE' "
          "and arg(arg(expression, 'to'), 'this') in (exp.DataType.Type.VARCHAR, exp.DataType.Type.TEXT) "
          "and ancestor_select(expression) is not None and find_explode(ancestor_select(expression)) is not None)")
    w.add_contract(
        Contract(
            "fakesnow.transforms.flatten_value_cast_as_varchar",
            params={"expression": E},
            requires=["implies(isinstance(expression, exp.Cast), isinstance(arg(expression, 'to'), exp.Expression))"],
            result=E,
            modifies=["*.parent", "$ghost:$treever"],
            ensures={
                # VALUE::varchar of a flattened array is the raw (unquoted) text whenever the enclosing SELECT contains the flatten -
                # wherever in that SELECT it sits (first FROM item, join, subquery)
                "C11.flatten_text.rewrites": f"implies(old({FV}), is_fresh(result) and cls_is(result, exp.JSONExtractScalar) and arg(result, 'this') is old(arg(expression, 'this')) and isinstance(arg(result, 'expression'), exp.JSONPath))",
                "C11.flatten_text.else_untouched": f"implies(not old({FV}), result is expression)",
            },
            props=["C11"],
        )
    )

    w.add_contract(
        Contract(
            "fakesnow.transforms.float_to_double",
            params={"expression": E},
            requires=[],
            result=E,
            modifies=["expression.args.$dmap", "expression.args.$dhas", "expression.args.$klen", "expression.args.$kel", "$ghost:$treever"],
            ensures={
                "C01.float.same_node": "result is expression",
                # Snowflake's FLOAT family is 64 bit: a FLOAT type is stored as DOUBLE; every other type is left alone
                "C01.float.double": "implies(old(isinstance(expression, exp.DataType) and arg(expression, 'this') == exp.DataType.Type.FLOAT), arg(result, 'this') == exp.DataType.Type.DOUBLE)",
                "C01.float.else_unchanged": "implies(not old(isinstance(expression, exp.DataType) and arg(expression, 'this') == exp.DataType.Type.FLOAT), dict_unchanged(expression.args))",
            },
            props=["C01"],
        )
    )

    SEMI = "(isinstance(expression, exp.DataType) and arg(expression, 'this') in (exp.DataType.Type.ARRAY, exp.DataType.Type.OBJECT, exp.DataType.Type.VARIANT))"
    w.add_contract(
        Contract(
            "fakesnow.transforms.semi_structured_types",
            params={"expression": E},
            requires=[],
            result=E,
            modifies=[],
            ensures={
                # VARIANT / OBJECT / ARRAY columns are stored as JSON documents; every other type is left alone, the input is not changed
                "C01.semi.json": f"implies(old({SEMI}), is_fresh(result) and isinstance(result, exp.DataType) and arg(result, 'this') == exp.DataType.Type.JSON)",
                "C01.semi.else_untouched": f"implies(not old({SEMI}), result is expression)",
                "C01.semi.input_unchanged": "arg(expression, 'this') == old(arg(expression, 'this'))",
            },
            props=["C01", "C11"],
        )
    )
    TN = "(isinstance(expression, exp.DataType) and arg(expression, 'this') == exp.DataType.Type.TIMESTAMPNTZ)"
    w.add_contract(
        Contract(
            "fakesnow.transforms.timestamp_ntz",
            params={"expression": E},
            requires=[],
            result=E,
            modifies=[],
            ensures={
                "C01.timestamp_ntz.timestamp": f"implies(old({TN}), is_fresh(result) and cls_is(result, exp.DataType) and arg(result, 'this') == exp.DataType.Type.TIMESTAMP)",
                "C01.timestamp_ntz.else_untouched": f"implies(not old({TN}), result is expression)",
            },
            props=["C01"],
        )
    )

    IDX = "seq_at(node_expressions(expression), 0)"
    BR = (f"(isinstance(expression, exp.Bracket) and seq_len(node_expressions(expression)) == 1 and isinstance({IDX}, exp.Literal) and bool(arg({IDX}, 'this')))")
    w.add_contract(
        Contract(
            "fakesnow.transforms.indices_to_json_extract",
            params={"expression": E},
            # field shapes (A-SQLGLOT 1): a Literal's `this` is a str, its `is_string` a bool or absent
            requires=[f"implies(isinstance(expression, exp.Bracket) and seq_len(node_expressions(expression)) == 1 and isinstance({IDX}, exp.Literal), "
                      f"isinstance(arg({IDX}, 'this'), str) and (arg({IDX}, 'is_string') is None or isinstance(arg({IDX}, 'is_string'), bool)))"],
            result=E,
            modifies=["*.parent", "$ghost:$treever"],
            ensures={
                # v['k'] selects key k (path $.k), v[n] selects element n (path $[n]) of the same base expression
                "C11.index.key": f"implies(old({BR}) and old(bool(arg({IDX}, 'is_string'))), is_fresh(result) and cls_is(result, exp.JSONExtract) and arg(result, 'this') is old(arg(expression, 'this')) "
                f"and node_name(arg(result, 'expression')) == '$.' + old(arg({IDX}, 'this')))",
                "C11.index.position": f"implies(old({BR}) and not old(bool(arg({IDX}, 'is_string'))), is_fresh(result) and cls_is(result, exp.JSONExtract) and arg(result, 'this') is old(arg(expression, 'this')) "
                f"and node_name(arg(result, 'expression')) == '$[' + old(arg({IDX}, 'this')) + ']')",
                "C11.index.else_untouched": f"implies(not old({BR}), result is expression)",
            },
            props=["C11"],
        )
    )

    from pyvc.types import TupleT

    F_, P_, S_ = "arg(e, 'format')", "arg(e, 'precision')", "arg(e, 'scale')"
    ISFMT = f"(bool({F_}) and isinstance({F_}, exp.Literal) and bool(arg({F_}, 'is_string')))"
    w.add_contract(
        Contract(
            "fakesnow.transforms._get_to_number_args",
            params={"e": exp.ToNumber},
            # field shapes (A-SQLGLOT 1): the optional arguments are nodes or absent
            requires=[f"{F_} is None or isinstance({F_}, exp.Expression)", f"{P_} is None or isinstance({P_}, exp.Expression)", f"{S_} is None or isinstance({S_}, exp.Expression)",
                      f"implies(isinstance({F_}, exp.Expression), arg({F_}, 'is_string') is None or isinstance(arg({F_}, 'is_string'), bool))"],
            result=TupleT(items=[Opt(E), Opt(E), Opt(E)]),
            modifies=[],
            ensures={
                # TO_NUMBER(expr [, '<format>'] [, precision [, scale]]): a string second argument is the format, a numeric one the precision
                "C10.to_number.format": f"(result[0] is old({F_})) if old({ISFMT}) else (result[0] is None)",
                "C10.to_number.with_format": f"implies(old({ISFMT}), (result[1] is old({P_}) if old(bool({P_})) else result[1] is None) and (result[2] is old({S_}) if old(bool({P_}) and bool({S_})) else result[2] is None))",
                "C10.to_number.shifted": f"implies(old(bool({F_})) and not old({ISFMT}), result[1] is old({F_}) and (result[2] is old({P_}) if old(bool({P_})) else result[2] is None))",
                "C10.to_number.no_second": f"implies(not old(bool({F_})), (result[1] is old({P_}) if old(bool({P_})) else result[1] is None) and (result[2] is old({S_}) if old(bool({P_}) and bool({S_})) else result[2] is None))",
            },
            props=["C10"],
        )
    )
