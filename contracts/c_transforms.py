"""Contracts for node-level functions of fakesnow/transforms.py (the ones that carry C02 / C03 / C14 and establish parts of
A-WF).  Each is applied by `Expression.transform` to every node of the statement; the contract is per node."""
from __future__ import annotations

from pyvc.types import NoneType, Opt
from pyvc.world import Contract


def install(w):
    from sqlglot import exp

    E = exp.Expression
    UNQ = "(isinstance(expression, exp.Identifier) and not arg(expression, 'quoted') and isinstance(arg(expression, 'this'), str))"
    w.add_contract(
        Contract(
            "fakesnow.transforms.upper_case_unquoted_identifiers",
            params={"expression": E},
            requires=[],
            result=E,
            modifies=[],
            ensures={
                # every other node is handed back untouched (the very same object)
                "C02.upper.identity": f"implies(not {UNQ}, result is expression)",
                # an unquoted identifier becomes a new identifier spelled in upper case, still unquoted; the input node is not changed
                "C02.upper.fresh": f"implies({UNQ}, is_fresh(result) and same_class(result, expression))",
                "C02.upper.text": f"implies({UNQ}, arg(result, 'this') == upper(old(arg(expression, 'this'))))",
                "C02.upper.unquoted": f"implies({UNQ}, not arg(result, 'quoted'))",
                "C02.upper.input_unchanged": "arg(expression, 'this') == old(arg(expression, 'this')) and arg(expression, 'quoted') == old(arg(expression, 'quoted'))",
            },
            props=["C02"],
        )
    )

    USE = ("(isinstance(expression, exp.Use) and bool(arg(expression, 'kind')) and isinstance(arg(expression, 'kind'), exp.Var) and bool(node_name(arg(expression, 'kind'))) "
           "and upper(node_name(arg(expression, 'kind'))) in ('SCHEMA', 'DATABASE'))")
    ISDB = "(upper(node_name(arg(expression, 'kind'))) == 'DATABASE')"
    THIS = "arg(expression, 'this')"
    w.add_contract(
        Contract(
            "fakesnow.transforms.set_schema",
            params={"expression": E, "current_database": (Opt(str), None)},
            requires=[f"implies({USE} and bool({THIS}), isinstance({THIS}, exp.Expression))"],
            result=E,
            modifies=[],
            raises={AssertionError: {"when": None, "ensures": {"C03.set_schema.assert_only_use": USE}, "modifies": []}},
            ensures={
                "C03.set_schema.identity": f"implies(not {USE}, result is expression)",
                "C03.set_schema.command": f"implies({USE}, is_fresh(result) and cls_is(result, exp.Command) and arg(result, 'this') == 'SET')",
                # USE DATABASE d: DuckDB goes to d.main, the session's database becomes d, no schema is named
                "C03.set_schema.database": f"implies({USE} and {ISDB}, arg(result, 'set_database') == old(node_name({THIS})) and not has_arg(result, 'set_schema') "
                f"and node_name(arg(result, 'expression')) == \"schema = '\" + old(node_name({THIS})) + \".main'\")",
                # USE SCHEMA [db.]s: the schema is s; the database is the qualifier when there is one, else the session's
                "C03.set_schema.schema": f"implies({USE} and not {ISDB}, arg(result, 'set_schema') == old(node_name({THIS})))",
                "C03.set_schema.schema_db": f"implies({USE} and not {ISDB}, "
                f"(arg(result, 'set_database') == old(node_name(arg({THIS}, 'db'))) if old(bool(arg({THIS}, 'db'))) else arg(result, 'set_database') is None))",
                "C03.set_schema.schema_text": f"implies({USE} and not {ISDB}, node_name(arg(result, 'expression')) == \"schema = '\" + "
                f"old(node_name(arg({THIS}, 'db')) if bool(arg({THIS}, 'db')) else (current_database or 'MISSING_DATABASE')) + '.' + old(node_name({THIS})) + \"'\")",
                # A-WF: the bookkeeping arguments are strings (or absent) and no other bookkeeping argument is attached
                "WF.set_schema.shapes": f"implies({USE}, (arg(result, 'set_database') is None or isinstance(arg(result, 'set_database'), str)) and (arg(result, 'set_schema') is None or isinstance(arg(result, 'set_schema'), str)) "
                "and not has_arg(result, 'create_db_name') and not has_arg(result, 'table_comment') and not has_arg(result, 'text_lengths') and not has_arg(result, 'seed'))",
            },
            props=["C03", "C02"],
        )
    )
