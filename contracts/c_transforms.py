"""Contracts for node-level functions of fakesnow/transforms.py (the ones that carry C02 / C03 / C14 and establish parts of
A-WF).  Each is applied by `Expression.transform` to every node of the statement; the contract is per node."""
from __future__ import annotations

from pyvc.types import NoneType, Opt
from pyvc.world import Contract


def install(w):
    from sqlglot import exp

    E = exp.Expression
    UNQ = "(isinstance(expression, exp.Identifier) and not arg(expression, 'quoted') and isinstance(arg(expression, 'this'), str))"
    w.add_contract(
        Contract(
            "fakesnow.transforms.upper_case_unquoted_identifiers",
            params={"expression": E},
            # field shape of parsed identifiers (A-SQLGLOT 1): `quoted` is a bool or absent
            requires=["implies(isinstance(expression, exp.Identifier), arg(expression, 'quoted') is None or isinstance(arg(expression, 'quoted'), bool))"],
            result=E,
            modifies=[],
            ensures={
                # every other node is handed back untouched (the very same object)
                "C02.upper.identity": f"implies(not old({UNQ}), result is expression)",
                # an unquoted identifier becomes a new identifier spelled in upper case, still unquoted; the input node is not changed
                "C02.upper.fresh": f"implies(old({UNQ}), is_fresh(result) and same_class(result, expression))",
                "C02.upper.text": f"implies(old({UNQ}), arg(result, 'this') == upper(old(arg(expression, 'this'))))",
                "C02.upper.unquoted": f"implies(old({UNQ}), not arg(result, 'quoted'))",
                "C02.upper.input_unchanged": "arg(expression, 'this') == old(arg(expression, 'this')) and arg(expression, 'quoted') == old(arg(expression, 'quoted'))",
            },
            props=["C02"],
        )
    )

    USE = ("(isinstance(expression, exp.Use) and bool(arg(expression, 'kind')) and isinstance(arg(expression, 'kind'), exp.Var) and bool(node_name(arg(expression, 'kind'))) "
           "and upper(node_name(arg(expression, 'kind'))) in ('SCHEMA', 'DATABASE'))")
    ISDB = "(upper(node_name(arg(expression, 'kind'))) == 'DATABASE')"
    THIS = "arg(expression, 'this')"
    w.add_contract(
        Contract(
            "fakesnow.transforms.set_schema",
            params={"expression": E, "current_database": (Opt(str), None)},
            join_outcomes=False,
            # field shapes of a parsed USE (A-SQLGLOT 1, Appendix A): `this` is a Table node (or absent), its `db` an Identifier (or absent)
            requires=[
                f"implies(isinstance(expression, exp.Use) and bool({THIS}), isinstance({THIS}, exp.Expression))",
                f"implies(isinstance(expression, exp.Use) and bool({THIS}) and bool(arg({THIS}, 'db')), isinstance(arg({THIS}, 'db'), exp.Expression))",
            ],
            result=E,
            modifies=[],
            raises={AssertionError: {"when": None, "ensures": {"C03.set_schema.assert_only_use": USE}, "modifies": []}},
            ensures={
                "C03.set_schema.identity": f"implies(not old({USE}), result is expression)",
                "C03.set_schema.command": f"implies(old({USE}), is_fresh(result) and cls_is(result, exp.Command) and arg(result, 'this') == 'SET')",
                # USE DATABASE d: DuckDB goes to d.main, the session's database becomes d, no schema is named
                "C03.set_schema.database": f"implies(old({USE}) and old({ISDB}), arg(result, 'set_database') == old(node_name({THIS})) and not has_arg(result, 'set_schema') "
                f"and node_name(arg(result, 'expression')) == \"schema = '\" + old(node_name({THIS})) + \".main'\")",
                # USE SCHEMA [db.]s: the schema is s; the database is the qualifier when there is one, else the session's
                "C03.set_schema.schema": f"implies(old({USE}) and not old({ISDB}), arg(result, 'set_schema') == old(node_name({THIS})))",
                "C03.set_schema.schema_db": f"implies(old({USE}) and not old({ISDB}), "
                f"(arg(result, 'set_database') == old(node_name(arg({THIS}, 'db'))) if old(bool(arg({THIS}, 'db'))) else arg(result, 'set_database') is None))",
                # (with neither a qualifier nor a session database the property wants 90105; what is generated then is a known finding of C03)
                "C03.set_schema.schema_text.qualified": f"implies(old({USE}) and not old({ISDB}) and old(bool(arg({THIS}, 'db'))), node_name(arg(result, 'expression')) == "
                f"\"schema = '\" + old(node_name(arg({THIS}, 'db'))) + '.' + old(node_name({THIS})) + \"'\")",
                "C03.set_schema.schema_text.session": f"implies(old({USE}) and not old({ISDB}) and not old(bool(arg({THIS}, 'db'))) and bool(current_database), node_name(arg(result, 'expression')) == "
                f"\"schema = '\" + current_database + '.' + old(node_name({THIS})) + \"'\")",
                # A-WF: the bookkeeping arguments are strings (or absent) and no other bookkeeping argument is attached
                "WF.set_schema.shapes": f"implies(old({USE}), (arg(result, 'set_database') is None or isinstance(arg(result, 'set_database'), str)) and (arg(result, 'set_schema') is None or isinstance(arg(result, 'set_schema'), str)) "
                "and not has_arg(result, 'create_db_name') and not has_arg(result, 'table_comment') and not has_arg(result, 'text_lengths') and not has_arg(result, 'seed'))",
            },
            props=["C03", "C02"],
        )
    )

    import pathlib

    CD = "(isinstance(expression, exp.Create) and upper(str(arg(expression, 'kind'))) == 'DATABASE')"
    NAME = "old(arg(find_ident(expression), 'this'))"
    w.add_contract(
        Contract(
            "fakesnow.transforms.create_database",
            params={"expression": E, "db_path": (Opt(pathlib.Path), None)},
            # field shape (A-SQLGLOT 1): an Identifier's `this` is a str
            requires=[f"implies({CD} and find_ident(expression) is not None, isinstance(arg(find_ident(expression), 'this'), str))"],
            result=E,
            modifies=[],
            raises={AssertionError: {"when": None, "ensures": {"C14.create_database.assert_only_nameless": f"{CD} and find_ident(expression) is None"}, "modifies": []}},
            ensures={
                "C14.create_database.identity": f"implies(not old({CD}), result is expression)",
                "C14.create_database.command": f"implies(old({CD}), is_fresh(result) and cls_is(result, exp.Command) and arg(result, 'this') == 'ATTACH' and arg(result, 'create_db_name') == {NAME})",
                # C14.file / C18: a database created by statement lives in the same file as one created by connect: db_file(db_path, name)
                "C14.create_database.file": f"implies(old({CD}), node_name(arg(result, 'expression')) == ('IF NOT EXISTS ' if old(arg(expression, 'exists')) else '') + \"DATABASE '\" + db_file(db_path, {NAME}) + \"' AS \" + {NAME})",
                "WF.create_database.shapes": f"implies(old({CD}), isinstance(arg(result, 'create_db_name'), str) and not has_arg(result, 'set_database') and not has_arg(result, 'set_schema') "
                "and not has_arg(result, 'table_comment') and not has_arg(result, 'text_lengths') and not has_arg(result, 'seed'))",
            },
            props=["C14", "C18", "C03"],
        )
    )

    from pyvc.types import ListT, TupleT

    CR = "(isinstance(expression, exp.Create) and find_table(expression) is not None)"
    CO = "(isinstance(expression, exp.Comment) and bool(arg(expression, 'expression')) and find_table(expression) is not None)"
    TC = "arg(result, 'table_comment')"
    w.add_contract(
        Contract(
            "fakesnow.transforms.extract_comment_on_table",
            params={"expression": E},
            # field shapes (A-SQLGLOT 1): Create.properties is a Properties node or absent; Comment.expression is a Literal
            requires=[
                "implies(isinstance(expression, exp.Create) and bool(arg(expression, 'properties')), isinstance(arg(expression, 'properties'), exp.Properties))",
                "implies(isinstance(expression, exp.Comment) and bool(arg(expression, 'expression')), isinstance(arg(expression, 'expression'), exp.Expression))",
            ],
            result=E,
            # the kept properties are re-parented to the copy (Expression.set on a list): parent pointers may change, nothing else
            modifies=["*.parent"],
            loops={0: {"invariant": ["is_list(other_props) and is_fresh(other_props)", "comment is None or exists(0, _k, lambda j: comment is arg(arg(seq_at(node_expressions(props), j), 'this'), 'this'))"]}},
            ensures={
                # COMMENT ON TABLE t IS 'c': nothing is sent to DuckDB but the no-op, and (t, 'c') is recorded
                "C09.extract.comment_on": f"implies(not isinstance(expression, exp.Create) and {CO}, is_fresh(result) and is_tuple({TC}) and seq_len({TC}) == 2 "
                f"and seq_at({TC}, 0) is old(find_table(expression)) and seq_at({TC}, 1) is old(arg(arg(expression, 'expression'), 'this')))",
                # CREATE TABLE ... COMMENT = 'c': the comment recorded is one the statement declares, for the statement's own table; the input tree is not changed
                "C09.extract.create": f"implies({CR} and bool(old(arg(expression, 'properties'))) and has_arg(result, 'table_comment') and result is not expression, is_tuple({TC}) and seq_len({TC}) == 2 and seq_at({TC}, 0) is old(find_table(expression)))",
                "C09.extract.identity": "implies(not isinstance(expression, (exp.Create, exp.Comment, exp.Alter)), result is expression)",
            },
            props=["C09"],
        )
    )
