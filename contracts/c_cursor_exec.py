"""Contracts for FakeSnowflakeCursor._execute / execute / executemany / _rewrite_with_params / description (C03 C04 C05 C06 C07 C08 C13 C16)."""
from __future__ import annotations

from pyvc.types import DictT, ListT, NoneType, Opt, TupleT, UnionT
from pyvc.world import Contract


def install(w):
    import duckdb
    import snowflake.connector.errors as sferr
    from sqlglot import exp

    import fakesnow.cursor

    Cur = fakesnow.cursor.FakeSnowflakeCursor
    E = exp.Expression
    import z3
    from string import Template

    from .externs_duck import IS_STATUS

    # the status-row templates of cursor.py, read from the real module
    w.status_templates = [v for k, v in vars(fakesnow.cursor).items() if k.startswith("SQL_") and isinstance(v, Template)]
    w.axioms.append(IS_STATUS(z3.StringVal(fakesnow.cursor.SQL_SUCCESS)))
    M = "fakesnow.cursor.FakeSnowflakeCursor."
    U = w.unq_specs
    X = "transformed"

    from pyvc.world import SpecFun
    from pyvc.spec import eval_nested

    def _dml_status_sql(ex, st, args):
        return eval_nested(ex, st, "('SELECT ' + str(n) + \" as 'number of rows inserted'\") if cmd == 'INSERT' else (('SELECT ' + str(n) + \" as 'number of rows updated', 0 as 'number of multi-joined rows updated'\") if cmd == 'UPDATE' else ('SELECT ' + str(n) + \" as 'number of rows deleted'\"))", {"cmd": args[0], "n": args[1]})

    w.specfuns["dml_status_sql"] = SpecFun("dml_status_sql", _dml_status_sql)

    def _ddl_status_sql(ex, st, args):
        return eval_nested(
            ex, st,
            "(\"SELECT 'Schema \" + name + \" successfully created.' as 'status'\") if cmd == 'CREATE SCHEMA' else ("
            "(\"SELECT 'Table \" + name + \" successfully created.' as 'status'\") if cmd == 'CREATE TABLE' else ("
            "(\"SELECT 'View \" + name + \" successfully created.' as 'status'\") if cmd == 'CREATE VIEW' else ("
            "(\"SELECT 'Database \" + name + \" successfully created.' as 'status'\") if cmd == 'CREATE DATABASE' else "
            "(\"SELECT '\" + name + \" successfully dropped.' as 'status'\"))))",
            {"cmd": args[0], "name": args[1]},
        )

    w.specfuns["ddl_status_sql"] = SpecFun("ddl_status_sql", _ddl_status_sql)

    def _norm_ident(ex, st, args):
        # Snowflake's identifier normalisation: quoted verbatim, unquoted upper-cased (property C02)
        return eval_nested(ex, st, "arg(i, 'this') if arg(i, 'quoted') else upper(arg(i, 'this'))", {"i": args[0]})

    w.specfuns["norm_ident"] = SpecFun("norm_ident", _norm_ident)

    def _ident_named(ex, st, args):
        return eval_nested(ex, st, "old(find_ident_dfs(e)) is not None and isinstance(arg(old(find_ident_dfs(e)), 'this'), str) and bool(norm_ident(old(find_ident_dfs(e))))", {"e": args[0]})

    w.specfuns["ident_named"] = SpecFun("ident_named", _ident_named)

    w.add_contract(
        Contract(
            M + "_log_sql",
            params={"self": Cur, "sql": str, "params": (None, None)},
            requires=[],
            result=NoneType,
            modifies=[],
            ensures={"C07.log.noeffect": "True"},
            props=["C07"],
        )
    )

    def sub(spec):
        return spec.replace("expression", X)

    # facts about the statement handed in: always evaluated on the pre-state (the tree is not changed by _execute)
    BAD, NEEDS_DB, NEEDS_SCHEMA = "old(" + sub(U["bad"]) + ")", "old(" + sub(U["needs_db"]) + ")", "old(" + sub(U["needs_schema"]) + ")"
    CMD = "old(keycmd(transformed))"
    SQL = "old(sql_of(transformed, 'duckdb'))"
    A_ = lambda k: f"old(arg(transformed, '{k}'))"
    SPECIAL = f"({A_('set_database')} or {A_('set_schema')} or {A_('create_db_name')})"
    GUARD_DB = f"({NEEDS_DB} and not old(self._conn.database_set))"
    GUARD_SCHEMA = f"(not {GUARD_DB} and {NEEDS_SCHEMA} and not old(self._conn.schema_set))"
    ctx_fields = ["self._conn.database", "self._conn.schema", "self._conn.database_set", "self._conn.schema_set"]
    cur_fields = ["self._arrow_table", "self._arrow_table_fetch_index", "self._rowcount", "self._last_sql", "self._last_params"]
    duck_ghosts = ["$ghost:" + g for g in ("$cats", "$schemas", "$files", "$boot", "$macros", "$search", "$dlast", "$trace_n", "$trace", "$trace_c", "$tres", "$tx_n", "$tx_name", "$tx_a1", "$tx_a2")]
    RESET = "self._arrow_table is None and self._arrow_table_fetch_index is None and self._rowcount is None"
    CTX_SAME = "self._conn.database == old(self._conn.database) and self._conn.schema == old(self._conn.schema) and self._conn.database_set == old(self._conn.database_set) and self._conn.schema_set == old(self._conn.schema_set)"
    NOTHING_RUN = "trace_len() == old(trace_len())"
    K0 = "old(trace_len())"
    w.exec_specs = dict(BAD=BAD, GUARD_DB=GUARD_DB, GUARD_SCHEMA=GUARD_SCHEMA, CMD=CMD, SQL=SQL, SPECIAL=SPECIAL)

    w.add_contract(
        Contract(
            M + "_execute",
            params={"self": Cur, "transformed": E, "params": (None, None)},
            requires=[
                # wf_args (established by the transforms that attach these arguments, DESIGN Appendix B): the session-changing
                # arguments exclude each other and the bookkeeping arguments; they carry strings
                f"{A_('set_database')} is None or (isinstance({A_('set_database')}, str) and ({A_('set_schema')} is None or isinstance({A_('set_schema')}, str)) and not {A_('create_db_name')} and not {A_('table_comment')} and not {A_('text_lengths')})",
                f"{A_('set_schema')} is None or (isinstance({A_('set_schema')}, str) and not {A_('create_db_name')} and not {A_('table_comment')} and not {A_('text_lengths')})",
                f"{A_('create_db_name')} is None or (isinstance({A_('create_db_name')}, str) and attaches({SQL}, {A_('create_db_name')}) and not {A_('table_comment')} and not {A_('text_lengths')})",
                f"{A_('seed')} is None or (cls_is(transformed, exp.Select) and not {SPECIAL} and not {A_('table_comment')} and not {A_('text_lengths')})",
                # bookkeeping arguments have the shapes their transforms give them
                f"{A_('table_comment')} is None or (is_tuple({A_('table_comment')}) and seq_len({A_('table_comment')}) == 2 and isinstance(seq_at({A_('table_comment')}, 0), exp.Table) and not is_fresh(seq_at({A_('table_comment')}, 0)) and isinstance(seq_at({A_('table_comment')}, 1), str))",
                f"{A_('text_lengths')} is None or is_list({A_('text_lengths')})",
                # COMMIT / ROLLBACK carry none of the bookkeeping arguments and are not DESCRIBE/DDL statements
                f"implies({CMD} in ('COMMIT', 'ROLLBACK'), not {SPECIAL} and not {A_('table_comment')} and not {A_('text_lengths')} and not {A_('seed')})",
                f"implies({CMD} in ('INSERT', 'UPDATE', 'DELETE'), not {SPECIAL} and not {A_('table_comment')} and not {A_('text_lengths')})",
                "self._duck_conn is self._conn._duck_conn",
            ],
            result=NoneType,
            modifies=cur_fields + ctx_fields + duck_ghosts,
            raises={
                AssertionError: {"when": None, "ensures": {"C05.replace.reset_on_assert": RESET, "C07.frame.on_assert": f"implies(not {CMD}.startswith('DROP'), {CTX_SAME})"}, "modifies": cur_fields + ctx_fields + duck_ghosts, "frame": True},
                sferr.ProgrammingError: {
                    "when": None,
                    "ensures": {
                        # C03.guard: the two context errors, decided before anything is executed
                        "C03.guard.90105": f"implies(not {BAD} and {GUARD_DB}, exc.errno == 90105 and exc.sqlstate == '22000' and {NOTHING_RUN})",
                        "C03.guard.90106": f"implies(not {BAD} and {GUARD_SCHEMA}, exc.errno == 90106 and exc.sqlstate == '22000' and {NOTHING_RUN})",
                        "C03.guard.only_then": f"implies(exc.errno == 90105, {GUARD_DB}) and implies(exc.errno == 90106, {GUARD_SCHEMA})",
                        # C07.map: the translated engine errors
                        "C07.map.codes": "(exc.errno == 90105 and exc.sqlstate == '22000') or (exc.errno == 90106 and exc.sqlstate == '22000') or (exc.errno == 2043 and exc.sqlstate == '02000') or (exc.errno == 2003 and exc.sqlstate == '42S02')",
                        "C07.map.one_statement": f"implies(exc.errno == 2043 or exc.errno == 2003, trace_len() == old(trace_len()))",
                        "C07.frame.on_raise": CTX_SAME,
                        "C05.replace.reset_on_error": RESET,
                    },
                    "modifies": cur_fields + duck_ghosts,
                },
                sferr.DatabaseError: {
                    "when": None,
                    "ensures": {
                        "C07.closed.code": "implies(not isinstance(exc, snowflake.connector.errors.ProgrammingError), exc.errno == 250002 and exc.sqlstate == '08003')",
                        "C07.frame.on_closed": CTX_SAME,
                    },
                    "modifies": cur_fields + duck_ghosts,
                },
                duckdb.Error: {
                    "when": None,
                    "ensures": {
                        # untranslated engine errors: never the four translated classes from the user statement itself
                        "C07.map.untranslated": "implies(trace_len() == old(trace_len()), not isinstance(exc, (duckdb.BinderException, duckdb.CatalogException, duckdb.ConnectionException)))",
                        "C05.replace.reset_on_raw": RESET,
                        "C07.frame.on_raw": f"implies(not {CMD}.startswith('DROP'), {CTX_SAME})",
                        # C13: COMMIT / ROLLBACK outside a transaction are no-ops with the success status, never an error
                        "C13.noop": "not (isinstance(exc, duckdb.TransactionException) and ('cannot rollback - no transaction is active' in exc_message(exc) or 'cannot commit - no transaction is active' in exc_message(exc)) and trace_len() == old(trace_len()))",
                    },
                    "modifies": cur_fields + ctx_fields + duck_ghosts,
                    "frame": True,
                },
            },
            ensures={
                "C03.guard.passed": f"not {BAD} and not {GUARD_DB} and not {GUARD_SCHEMA}",
                # C04: INSERT / UPDATE / DELETE report DuckDB's affected-row count (0 included) in rowcount and in the status row
                "C04.count.rowcount": f"implies(is_dml_count(transformed), trace_len() == {K0} + 2 and self._rowcount == result_count({K0}))",
                "C04.count.status": f"implies(is_dml_count(transformed), trace_at({K0} + 1) == dml_status_sql({CMD}, result_count({K0})))",
                # C04 / C02: DDL status rows name the object: quoted identifiers verbatim, unquoted ones upper-cased
                "C04.status.ddl": f"implies(not {SPECIAL} and not is_dml_count(transformed) and {CMD} in ('CREATE SCHEMA', 'CREATE TABLE', 'CREATE VIEW') and ident_named(transformed), "
                f"trace_at(trace_len() - 1) == ddl_status_sql({CMD}, norm_ident(old(find_ident_dfs(transformed)))))",
                "C04.status.drop": f"implies(not {SPECIAL} and not is_dml_count(transformed) and {CMD}.startswith('DROP') and not {CMD} in ('DESCRIBE TABLE', 'DESCRIBE VIEW') and ident_named(transformed), "
                f"trace_at(trace_len() - 1) == ddl_status_sql('DROP', norm_ident(old(find_ident_dfs(transformed)))))",
                "C04.status.database": f"implies(not {A_('set_database')} and not {A_('set_schema')} and bool({A_('create_db_name')}), trace_at(trace_len() - 1) == ddl_status_sql('CREATE DATABASE', {A_('create_db_name')}))",
                # C06: the statement description will describe is the one whose result the cursor holds
                "C06.describable.is_last": f"implies(not {A_('seed')}, self._last_sql == trace_at(trace_len() - 1))",
                # seeded RANDOM / SAMPLE: the statement without its setseed() prefix
                "C06.describable.seeded": f"implies(bool({A_('seed')}), self._last_sql == {SQL} or self._last_sql == SQL_SUCCESS)",
                # the statement itself is what is executed first (with the seed prefix for seeded RANDOM / SAMPLE)
                "C16.main_sql": f"implies(not {CMD} in ('COMMIT', 'ROLLBACK') and not {A_('seed')}, trace_at(old(trace_len())) == {SQL})",
                "C02.tx.monotone": "tx_len() >= old(tx_len())",
                "C05.replace.wf": "wf_table(self._arrow_table)",
                # every statement of this call ran on this cursor's own DuckDB connection (C03 / C13)
                "C13.trace.own_connection": "forall(old(trace_len()), trace_len(), lambda j: trace_conn_at(j) is self._duck_conn)",
                "C16.executed": "trace_len() >= old(trace_len()) + 1",
                "C16.single_statement": f"implies({CMD} == 'SELECT' and not {SPECIAL} and not {A_('table_comment')} and not {A_('text_lengths')}, trace_len() <= old(trace_len()) + 1)",
                "C10.macro.bootstrap": f"implies(not {A_('set_database')} and not {A_('set_schema')} and bool({A_('create_db_name')}), bootstrapped(upper({A_('create_db_name')})))",
                "C05.replace.table": "is_fresh(self._arrow_table) and self._arrow_table_fetch_index is None",
                "C04.rowcount.query": "implies(not is_dml_count(transformed), self._rowcount == nrows(self._arrow_table))",
                "C06.describable.last": "self._last_params is params and isinstance(self._last_sql, str)",
                "C03.use.database": f"implies(bool({A_('set_database')}), self._conn.database == {A_('set_database')} and self._conn.database_set)",
                # USE SCHEMA [db.]s: the schema becomes current; the database changes exactly when the name is qualified
                "C03.use.schema": f"implies(bool({A_('set_schema')}), self._conn.schema == {A_('set_schema')} and self._conn.schema_set and implies(not {A_('set_database')}, self._conn.database == old(self._conn.database)))",
                # after USE DATABASE d DuckDB is at d.main: conn.schema must not keep naming a schema of the previous database
                "C03.use.database_schema_consistent": f"implies(bool({A_('set_database')}) and not {A_('set_schema')}, self._conn.schema is None or self._conn.schema == 'MAIN')",
                # C09: declared comments / text lengths are recorded, on this cursor's connection, for the statement's own catalog.schema.table
                **_c09_clauses(A_, CMD, K0),
                "C03.ctx.else_unchanged": f"implies(not {A_('set_database')} and not {A_('set_schema')} and not {CMD}.startswith('DROP'), {CTX_SAME})",
            },
            props=["C03", "C04", "C05", "C06", "C07", "C09", "C13"],
            private=["C09."],
            split_on=[
                "keycmd(transformed) in ('INSERT', 'UPDATE', 'DELETE')",
                "keycmd(transformed) in ('TRANSACTION', 'COMMIT', 'ROLLBACK', 'TRUNCATETABLE')",
                "keycmd(transformed) in ('DESCRIBE TABLE', 'DESCRIBE VIEW')",
                "keycmd(transformed).startswith('DROP')",
                "keycmd(transformed).startswith('CREATE')",
                "keycmd(transformed).startswith('ALTER')",
            ],
            focus=[{"label": "bookkeeping", "assume": "bool(arg(transformed, 'table_comment')) or bool(arg(transformed, 'text_lengths'))", "only": ["C09."]}],
        )
    )



def _c09_clauses(A_, CMD, K0):
    """C09: a declared table comment / declared text lengths are recorded right after the statement itself, with the text
    info_schema's builder gives for the statement's own catalog.schema.table (qualified parts of the name, else the
    session's) and exactly the declared comment / lengths"""
    TBL = "seq_at(arg(transformed, 'table_comment'), 0)"
    FT = "find_table(transformed)"
    return {
        "C09.comment.recorded": f"implies(bool({A_('table_comment')}) and not {CMD}.startswith('DROP'), "
        f"trace_at({K0} + 1) == old(comment_sql_of({TBL}.catalog or self._conn.database, {TBL}.db or self._conn.schema, {TBL}.name, seq_at(arg(transformed, 'table_comment'), 1))))",
        "C09.text_lengths.recorded": f"implies(bool({A_('text_lengths')}) and old({FT}) is not None and not {CMD}.startswith('DROP'), "
        f"trace_at({K0} + (2 if bool({A_('table_comment')}) else 1)) == old(text_lengths_sql_of({FT}.catalog or self._conn.database, {FT}.db or self._conn.schema, {FT}.name, arg(transformed, 'text_lengths'))))",
    }


def install_execute(w):
    import duckdb
    import snowflake.connector.errors as sferr
    from sqlglot import exp

    import fakesnow.cursor

    Cur = fakesnow.cursor.FakeSnowflakeCursor
    E = exp.Expression
    M = "fakesnow.cursor.FakeSnowflakeCursor."

    w.add_contract(
        Contract(
            M + "_inline_variables",
            params={"self": Cur, "sql": str},
            requires=[],
            result=str,
            modifies=[],
            raises={sferr.ProgrammingError: {"when": None, "ensures": {}, "modifies": []}},
            ensures={
                # the connection's own variables, applied to exactly the text handed in
                "C15.inline.delegates": "calls() == old(calls()) + 1 and call_tag(old(calls())) == 'inline_variables' and call_arg1(old(calls())) is self._conn.variables and call_arg2(old(calls())) == sql and result == call_res(old(calls()))",
            },
            modifies_ghost=None,
            props=["C15", "C08", "C07"],
        )
        if False
        else Contract(
            M + "_inline_variables",
            params={"self": Cur, "sql": str},
            requires=[],
            result=str,
            modifies=["$ghost:$cl_n", "$ghost:$cl_tag", "$ghost:$cl_a1", "$ghost:$cl_a2", "$ghost:$cl_res"],
            raises={sferr.ProgrammingError: {"when": None, "ensures": {}, "modifies": []}},
            ensures={
                "C15.inline.delegates": "calls() == old(calls()) + 1 and call_tag(old(calls())) == 'inline_variables' and call_arg1(old(calls())) is self._conn.variables and call_arg2(old(calls())) == sql and result == call_res(old(calls()))",
            },
            props=["C15", "C08", "C07"],
        )
    )

    PS = "old(self._conn._paramstyle)"
    CLIENT = f"(bool(params) and {PS} in ('pyformat', 'format'))"
    w.add_contract(
        Contract(
            M + "_rewrite_with_params",
            params={"self": Cur, "command": str, "params": (Opt(UnionT([DictT(None, None), TupleT(elem=None), ListT(None)])), None)},
            requires=[],
            result=TupleT(items=[str, None]),
            modifies=["$ghost:$fmt_n", "$ghost:$fmt_cmd", "$ghost:$fmt_arg", "$ghost:$fmt_out"],
            raises={TypeError: {"when": None, "ensures": {"C08.rewrite.raise_only_client": CLIENT}, "modifies": ["$ghost:$fmt_n", "$ghost:$fmt_cmd", "$ghost:$fmt_arg", "$ghost:$fmt_out"]}},
            ensures={
                # qmark / numeric (server-side) binding and no parameters: command and parameters pass through untouched
                "C08.rewrite.passthrough": f"implies(not {CLIENT}, result[0] == command and result[1] is params and fmt_count() == old(fmt_count()))",
                # client-side binding: every value is converted exactly once with the connector's own quoting, then % substitution
                "C08.rewrite.client": f"implies({CLIENT}, result[1] is None and fmt_count() == old(fmt_count()) + 1 and fmt_cmd() == command)",
                "C08.rewrite.client_text": f"implies({CLIENT}, result[0] == fmt_out())",
                "C08.rewrite.seq_values": f"implies({CLIENT} and not is_dict(params), is_tuple(fmt_arg()) and seq_len(fmt_arg()) == seq_len(params) and forall(0, seq_len(params), lambda j: seq_at(fmt_arg(), j) == sf_literal(seq_at(params, j))))",
                "C08.rewrite.dict_values": f"implies({CLIENT} and is_dict(params), is_dict(fmt_arg()) and dict_len(fmt_arg()) == dict_len(params) and forall(0, dict_len(params), lambda j: dict_key(fmt_arg(), j) == dict_key(params, j) and implies(dict_has(params, dict_key(params, j)), dict_at(fmt_arg(), dict_key(params, j)) == sf_literal(dict_at(params, dict_key(params, j))))))",
            },
            props=["C08"],
        )
    )


def install_execute2(w):
    import duckdb
    import snowflake.connector.errors as sferr
    import sqlglot.errors
    from sqlglot import exp

    import fakesnow.cursor

    Cur = fakesnow.cursor.FakeSnowflakeCursor
    E = exp.Expression
    M = "fakesnow.cursor.FakeSnowflakeCursor."
    X = w.contracts[M + "_execute"]
    # wf_args of _execute, restated for a value named `result` (postcondition of _transform)
    WF = [r.replace("transformed", "result") for r in X.requires if "transformed" in r]
    w.contracts[M + "_rewrite_with_params"].log = ("rewrite", ["command", "params"])

    w.add_contract(
        Contract(
            M + "_transform_explode",
            params={"self": Cur, "expression": E},
            requires=[],
            result=ListT(E),
            fresh_result=True,
            modifies=["$ghost:$parse_n", "$ghost:$parse_text"],  # (merge parses the statements it generates)
            may_raise=[AssertionError, sqlglot.errors.ParseError, AttributeError],
            ensures={"C12.explode.nonempty": "len(result) >= 1", "C12.explode.passthrough": "implies(not isinstance(expression, exp.Merge), len(result) == 1 and result[0] is expression)"},
            props=["C12"],
        )
    )
    tx_ghosts = ["$ghost:$tx_n", "$ghost:$tx_name", "$ghost:$tx_a1", "$ghost:$tx_a2", "$ghost:$treever"]
    VARS = ["self._conn.variables._variables.$dmap", "self._conn.variables._variables.$dhas", "self._conn.variables._variables.$klen", "self._conn.variables._variables.$kel"]
    T0 = "old(tx_len())"
    w.add_contract(
        Contract(
            M + "_transform",
            params={"self": Cur, "expression": E},
            requires=[],
            result=E,
            modifies=tx_ghosts + VARS,
            may_raise=[NotImplementedError, AssertionError, ValueError, sqlglot.errors.ParseError, KeyError],
            ensures={
                # C02: identifier case folding is the first thing that happens to every statement
                "C02.pipeline.first": f"tx_len() > {T0} and tx_name({T0}) == 'fakesnow.transforms.upper_case_unquoted_identifiers'",
                # C15: SET / UNSET are applied to this connection's own variables
                "C15.pipeline.variables": f"tx_applied({T0}, tx_len(), 'fakesnow.transforms.update_variables', self._conn.variables)",
                # C03: USE is resolved against, and SHOW/keys default to, this connection's current database
                "C03.pipeline.set_schema": f"tx_applied({T0}, tx_len(), 'fakesnow.transforms.set_schema', old(self._conn.database))",
                "C18.pipeline.db_path": f"tx_applied({T0}, tx_len(), 'fakesnow.transforms.create_database', old(self._conn.db_path))",
                "C02.pipeline.before_status": f"tx_before({T0}, tx_len(), 'fakesnow.transforms.upper_case_unquoted_identifiers', 'fakesnow.transforms.set_schema') and tx_before({T0}, tx_len(), 'fakesnow.transforms.upper_case_unquoted_identifiers', 'fakesnow.transforms.update_variables')",
                # C11: documented ordering constraints between the JSON transforms
                "C11.pipeline.order": f"tx_before({T0}, tx_len(), 'fakesnow.transforms.trim_cast_varchar', 'fakesnow.transforms.json_extract_cast_as_varchar') and tx_before({T0}, tx_len(), 'fakesnow.transforms.indices_to_json_extract', 'fakesnow.transforms.regex_substr')",
                "C03.pipeline.show_defaults": f"forall({T0}, tx_len(), lambda j: implies(tx_name(j) in ('fakesnow.transforms.show_schemas', 'fakesnow.transforms.show_objects_tables', 'fakesnow.transforms.show_keys'), tx_arg1(j) is old(self._conn.database)))",
            },
            assumed_ensures={"A-WF.wf_args": " and ".join(f"({r})" for r in WF).replace("old(", "(")},
            props=["C02", "C03", "C11", "C15"],
        )
    )

    cur_fields = ["self._arrow_table", "self._arrow_table_fetch_index", "self._rowcount", "self._last_sql", "self._last_params", "self._sqlstate"]
    ctx_fields = ["self._conn.database", "self._conn.schema", "self._conn.database_set", "self._conn.schema_set"]
    ghosts = [m for m in X.modifies if m.startswith("$ghost:")] + ["$ghost:$treever", "$ghost:$parse_n", "$ghost:$parse_text"] + ["$ghost:$cl_n", "$ghost:$cl_tag", "$ghost:$cl_a1", "$ghost:$cl_a2", "$ghost:$cl_res", "$ghost:$fmt_n", "$ghost:$fmt_cmd", "$ghost:$fmt_arg", "$ghost:$fmt_out"]
    heap_any = VARS
    C0 = "old(calls())"
    ORDER = (f"calls() >= {C0} + 1 and call_tag({C0}) == 'inline_variables' and call_arg1({C0}) is self._conn.variables and call_arg2({C0}) == command")
    ORDER2 = (f"calls() >= {C0} + 2 and call_tag({C0} + 1) == 'rewrite' and call_arg1({C0} + 1) == call_res({C0}) and call_arg2({C0} + 1) is params")
    w.add_contract(
        Contract(
            M + "execute",
            params={"self": Cur, "command": str, "params": (Opt(UnionT([DictT(None, None), TupleT(elem=None), ListT(None)])), None)},
            requires=["self._duck_conn is self._conn._duck_conn"],
            result=Cur,
            modifies=cur_fields + ctx_fields + ghosts + heap_any,
            raises={
                sferr.ProgrammingError: {
                    "when": None,
                    "ensures": {
                        "C07.sqlstate.set": "self._sqlstate == exc.sqlstate",
                        # an undefined session variable is reported before anything is executed (C07, C15)
                        "C07.undefined_var": f"implies(calls() == {C0}, trace_len() == old(trace_len()) and tx_len() == old(tx_len()))",
                    },
                    "modifies": cur_fields + ctx_fields + ghosts + heap_any,
                },
                BaseException: {"when": None, "ensures": {"C07.sqlstate.none_otherwise": "implies(not isinstance(exc, snowflake.connector.errors.ProgrammingError), self._sqlstate is None)"}, "modifies": cur_fields + ctx_fields + ghosts + heap_any},
            },
            ensures={
                "C07.sqlstate.reset": "self._sqlstate is None and result is self",
                # C08: variables are inlined in the command text only, and before the parameters are substituted
                "C08.order.inline_first": ORDER,
                "C08.order.then_params": ORDER2,
                # C16: a no-op'd statement runs nothing but the success status; nothing is parsed or transformed
                "C16.nop.one_statement": "implies(tx_len() == old(tx_len()), trace_len() == old(trace_len()) + 1)",
                "C16.nop.is_success_select": "implies(tx_len() == old(tx_len()), trace_at(old(trace_len())) == sql_of(transforms.SUCCESS_NOP, 'duckdb'))",
                "C16.nop.only_if_configured": "implies(tx_len() == old(tx_len()), bool(self._conn.nop_regexes))",
                # ... and only for a statement that one of the configured patterns matches *at its start* (case-insensitively), the text
                # being the command after variables were inlined and parameters bound (the converse is decided by the bounded tier)
                "C16.nop.only_at_start": f"implies(tx_len() == old(tx_len()), exists(0, old(seq_len(self._conn.nop_regexes)), lambda j: re_match_start(old(seq_at(self._conn.nop_regexes, j)), seq_at(call_res({C0} + 1), 0), 2)))",
                "C05.replace.fresh": "is_fresh(self._arrow_table) and self._arrow_table_fetch_index is None",
            },
            loops={1: {"inv": [
                "tx_len() >= old(tx_len()) + _k",
                "self._sqlstate is None",
                "implies(_k > 0, is_fresh(self._arrow_table) and self._arrow_table_fetch_index is None)",
                "calls() == old(calls()) + 2",
                f"call_tag({C0}) == 'inline_variables' and call_arg1({C0}) is self._conn.variables and call_arg2({C0}) == pre_command",
                f"call_tag({C0} + 1) == 'rewrite' and call_arg1({C0} + 1) == call_res({C0}) and call_arg2({C0} + 1) is pre_params",
            ]}},
            locals={"exp": E},
            log=("execute", ["command", "params"], "$ex"),
            props=["C07", "C08", "C16", "C05", "C15"],
        )
    )
    w.add_contract(
        Contract(
            M + "executemany",
            params={"self": Cur, "command": str, "seqparams": UnionT([DictT(None, None), TupleT(elem=None), ListT(None)])},
            requires=["self._duck_conn is self._conn._duck_conn"],
            result=Cur,
            modifies=cur_fields + ctx_fields + ghosts + heap_any + ["$ghost:$ex_n", "$ghost:$ex_cmd", "$ghost:$ex_par"],
            raises={
                NotImplementedError: {"when": None, "ensures": {"C08.executemany.dict_before_any": "is_dict(seqparams) and trace_len() == old(trace_len()) and calls() == old(calls())"}, "modifies": []},
                BaseException: {"when": None, "ensures": {}, "modifies": cur_fields + ctx_fields + ghosts + heap_any + ["$ghost:$ex_n", "$ghost:$ex_cmd", "$ghost:$ex_par"]},
            },
            ensures={
                "C08.executemany.once_each": "result is self and not is_dict(seqparams) and execs() == old(execs()) + seq_len(seqparams)",
                "C08.executemany.in_order": "forall(0, seq_len(seqparams), lambda j: exec_cmd(old(execs()) + j) == command and exec_params(old(execs()) + j) is seq_at(seqparams, j))",
            },
            loops={1: {"inv": ["execs() == old(execs()) + _k", "forall(0, _k, lambda j: exec_cmd(old(execs()) + j) == command and exec_params(old(execs()) + j) is seq_at(seqparams, j))"]}},
            props=["C08"],
        )
    )


def install_describe(w):
    import duckdb
    import snowflake.connector.errors as sferr
    import sqlglot.errors
    from sqlglot import exp

    import fakesnow.conn
    import fakesnow.cursor

    Cur = fakesnow.cursor.FakeSnowflakeCursor
    Conn = fakesnow.conn.FakeSnowflakeConnection
    M = "fakesnow.cursor.FakeSnowflakeCursor."
    X = w.contracts[M + "_execute"]
    ghosts = [m for m in X.modifies if m.startswith("$ghost:")] + ["$ghost:$parse_n", "$ghost:$parse_text"]  # (the DESCRIBE text is parsed)
    # C06: reading the description never changes the pending result set, the data or the session:
    # nothing reachable from the cursor or its connection is modified (only DuckDB's statement trace / last-result ghosts)
    w.add_contract(
        Contract(
            M + "_describe_last_sql",
            params={"self": Cur},
            requires=["self._duck_conn is self._conn._duck_conn", "self._last_sql is None or isinstance(self._last_sql, str)"],
            result=ListT(None),
            modifies=ghosts,
            raises={BaseException: {"when": None, "ensures": {}, "modifies": ghosts}},
            ensures={
                "C06.frame.describes_last": "trace_len() >= old(trace_len()) + 1",
                "C06.frame.same_connection": "forall(old(trace_len()), trace_len(), lambda j: trace_conn_at(j) is self._duck_conn)",
            },
            props=["C06", "C17"],
        )
    )
    MN = "fakesnow.conn.FakeSnowflakeConnection."
    X2 = w.contracts[M + "execute"]
    g2 = [m for m in X2.modifies if m.startswith("$ghost:")] + ["$ghost:$ex_n", "$ghost:$ex_cmd", "$ghost:$ex_par"]
    ctx = ["self.database", "self.schema", "self.database_set", "self.schema_set", "self.variables._variables.$dmap", "self.variables._variables.$dhas", "self.variables._variables.$klen", "self.variables._variables.$kel"]
    for name, sql in (("commit", "COMMIT"), ("rollback", "ROLLBACK")):
        w.add_contract(
            Contract(
                MN + name,
                params={"self": Conn},
                requires=[],
                result=NoneType,
                modifies=g2 + ctx,
                raises={BaseException: {"when": None, "ensures": {}, "modifies": g2 + ctx}},
                ensures={
                    # C13: conn.commit() / conn.rollback() execute exactly COMMIT / ROLLBACK through a cursor of this connection
                    f"C13.conn_api.{name}": f"execs() == old(execs()) + 1 and exec_cmd(old(execs())) == '{sql}' and exec_params(old(execs())) is None",
                },
                props=["C13"],
            )
        )
