"""Contracts for FakeSnowflakeCursor._execute / execute / executemany / _rewrite_with_params / description (C03 C04 C05 C06 C07 C08 C13 C16)."""
from __future__ import annotations

from pyvc.types import DictT, ListT, NoneType, Opt, TupleT
from pyvc.world import Contract


def install(w):
    import duckdb
    import snowflake.connector.errors as sferr
    from sqlglot import exp

    import fakesnow.cursor

    Cur = fakesnow.cursor.FakeSnowflakeCursor
    E = exp.Expression
    import z3
    from string import Template

    from .externs_duck import IS_STATUS

    # the status-row templates of cursor.py, read from the real module
    w.status_templates = [v for k, v in vars(fakesnow.cursor).items() if k.startswith("SQL_") and isinstance(v, Template)]
    w.axioms.append(IS_STATUS(z3.StringVal(fakesnow.cursor.SQL_SUCCESS)))
    M = "fakesnow.cursor.FakeSnowflakeCursor."
    U = w.unq_specs
    X = "transformed"

    from pyvc.world import SpecFun
    from pyvc.spec import eval_nested

    def _dml_status_sql(ex, st, args):
        return eval_nested(ex, st, "('SELECT ' + str(n) + \" as 'number of rows inserted'\") if cmd == 'INSERT' else (('SELECT ' + str(n) + \" as 'number of rows updated', 0 as 'number of multi-joined rows updated'\") if cmd == 'UPDATE' else ('SELECT ' + str(n) + \" as 'number of rows deleted'\"))", {"cmd": args[0], "n": args[1]})

    w.specfuns["dml_status_sql"] = SpecFun("dml_status_sql", _dml_status_sql)

    def _ddl_status_sql(ex, st, args):
        return eval_nested(
            ex, st,
            "(\"SELECT 'Schema \" + name + \" successfully created.' as 'status'\") if cmd == 'CREATE SCHEMA' else ("
            "(\"SELECT 'Table \" + name + \" successfully created.' as 'status'\") if cmd == 'CREATE TABLE' else ("
            "(\"SELECT 'View \" + name + \" successfully created.' as 'status'\") if cmd == 'CREATE VIEW' else ("
            "(\"SELECT 'Database \" + name + \" successfully created.' as 'status'\") if cmd == 'CREATE DATABASE' else "
            "(\"SELECT '\" + name + \" successfully dropped.' as 'status'\"))))",
            {"cmd": args[0], "name": args[1]},
        )

    w.specfuns["ddl_status_sql"] = SpecFun("ddl_status_sql", _ddl_status_sql)

    def _norm_ident(ex, st, args):
        # Snowflake's identifier normalisation: quoted verbatim, unquoted upper-cased (property C02)
        return eval_nested(ex, st, "arg(i, 'this') if arg(i, 'quoted') else upper(arg(i, 'this'))", {"i": args[0]})

    w.specfuns["norm_ident"] = SpecFun("norm_ident", _norm_ident)

    def _ident_named(ex, st, args):
        return eval_nested(ex, st, "old(find_ident_dfs(e)) is not None and isinstance(arg(old(find_ident_dfs(e)), 'this'), str) and bool(norm_ident(old(find_ident_dfs(e))))", {"e": args[0]})

    w.specfuns["ident_named"] = SpecFun("ident_named", _ident_named)

    w.add_contract(
        Contract(
            M + "_log_sql",
            params={"self": Cur, "sql": str, "params": (None, None)},
            requires=[],
            result=NoneType,
            modifies=[],
            ensures={"C07.log.noeffect": "True"},
            props=["C07"],
        )
    )

    def sub(spec):
        return spec.replace("expression", X)

    # facts about the statement handed in: always evaluated on the pre-state (the tree is not changed by _execute)
    BAD, NEEDS_DB, NEEDS_SCHEMA = "old(" + sub(U["bad"]) + ")", "old(" + sub(U["needs_db"]) + ")", "old(" + sub(U["needs_schema"]) + ")"
    CMD = "old(keycmd(transformed))"
    SQL = "old(sql_of(transformed, 'duckdb'))"
    A_ = lambda k: f"old(arg(transformed, '{k}'))"
    SPECIAL = f"({A_('set_database')} or {A_('set_schema')} or {A_('create_db_name')})"
    GUARD_DB = f"({NEEDS_DB} and not old(self._conn.database_set))"
    GUARD_SCHEMA = f"(not {GUARD_DB} and {NEEDS_SCHEMA} and not old(self._conn.schema_set))"
    ctx_fields = ["self._conn.database", "self._conn.schema", "self._conn.database_set", "self._conn.schema_set"]
    cur_fields = ["self._arrow_table", "self._arrow_table_fetch_index", "self._rowcount", "self._last_sql", "self._last_params"]
    duck_ghosts = ["$ghost:" + g for g in ("$cats", "$schemas", "$files", "$boot", "$macros", "$search", "$dlast", "$trace_n", "$trace", "$trace_c", "$tres", "$tx_n", "$tx_name", "$tx_a1", "$tx_a2")]
    RESET = "self._arrow_table is None and self._arrow_table_fetch_index is None and self._rowcount is None"
    CTX_SAME = "self._conn.database == old(self._conn.database) and self._conn.schema == old(self._conn.schema) and self._conn.database_set == old(self._conn.database_set) and self._conn.schema_set == old(self._conn.schema_set)"
    NOTHING_RUN = "trace_len() == old(trace_len())"
    K0 = "old(trace_len())"
    w.exec_specs = dict(BAD=BAD, GUARD_DB=GUARD_DB, GUARD_SCHEMA=GUARD_SCHEMA, CMD=CMD, SQL=SQL, SPECIAL=SPECIAL)

    w.add_contract(
        Contract(
            M + "_execute",
            params={"self": Cur, "transformed": E, "params": (None, None)},
            requires=[
                # wf_args (established by the transforms that attach these arguments, DESIGN Appendix B): the session-changing
                # arguments exclude each other and the bookkeeping arguments; they carry strings
                f"{A_('set_database')} is None or (isinstance({A_('set_database')}, str) and not {A_('set_schema')} and not {A_('create_db_name')} and not {A_('table_comment')} and not {A_('text_lengths')})",
                f"{A_('set_schema')} is None or (isinstance({A_('set_schema')}, str) and not {A_('create_db_name')} and not {A_('table_comment')} and not {A_('text_lengths')})",
                f"{A_('create_db_name')} is None or (isinstance({A_('create_db_name')}, str) and attaches({SQL}, {A_('create_db_name')}) and not {A_('table_comment')} and not {A_('text_lengths')})",
                f"{A_('seed')} is None or (cls_is(transformed, exp.Select) and not {SPECIAL} and not {A_('table_comment')} and not {A_('text_lengths')})",
                # bookkeeping arguments have the shapes their transforms give them
                f"{A_('table_comment')} is None or (is_tuple({A_('table_comment')}) and seq_len({A_('table_comment')}) == 2 and isinstance(seq_at({A_('table_comment')}, 0), exp.Table) and isinstance(seq_at({A_('table_comment')}, 1), str))",
                f"{A_('text_lengths')} is None or is_list({A_('text_lengths')})",
                # the DuckDB text of an INSERT / UPDATE / DELETE statement is such a statement (A-SQLGLOT 5)
                f"implies(not {SPECIAL} and {CMD} in ('INSERT', 'UPDATE', 'DELETE'), duck_dml({SQL}))",
                # COMMIT / ROLLBACK carry none of the bookkeeping arguments and are not DESCRIBE/DDL statements
                f"implies(duck_txn_end({SQL}), {CMD} in ('COMMIT', 'ROLLBACK') and not {SPECIAL} and not {A_('table_comment')} and not {A_('text_lengths')} and not {A_('seed')})",
                f"implies({CMD} in ('INSERT', 'UPDATE', 'DELETE'), not {A_('table_comment')} and not {A_('text_lengths')})",
                "self._duck_conn is self._conn._duck_conn",
            ],
            result=NoneType,
            modifies=cur_fields + ctx_fields + duck_ghosts + ["*.$len", "*.$el"],
            raises={
                AssertionError: {"when": None, "ensures": {"C05.replace.reset_on_assert": RESET}, "modifies": cur_fields + ctx_fields + duck_ghosts, "frame": True},
                sferr.ProgrammingError: {
                    "when": None,
                    "ensures": {
                        # C03.guard: the two context errors, decided before anything is executed
                        "C03.guard.90105": f"implies(not {BAD} and {GUARD_DB}, exc.errno == 90105 and exc.sqlstate == '22000' and {NOTHING_RUN})",
                        "C03.guard.90106": f"implies(not {BAD} and {GUARD_SCHEMA}, exc.errno == 90106 and exc.sqlstate == '22000' and {NOTHING_RUN})",
                        "C03.guard.only_then": f"implies(exc.errno == 90105, {GUARD_DB}) and implies(exc.errno == 90106, {GUARD_SCHEMA})",
                        # C07.map: the translated engine errors
                        "C07.map.codes": "(exc.errno == 90105 and exc.sqlstate == '22000') or (exc.errno == 90106 and exc.sqlstate == '22000') or (exc.errno == 2043 and exc.sqlstate == '02000') or (exc.errno == 2003 and exc.sqlstate == '42S02')",
                        "C07.map.one_statement": f"implies(exc.errno == 2043 or exc.errno == 2003, trace_len() == old(trace_len()))",
                        "C07.frame.on_raise": CTX_SAME,
                        "C05.replace.reset_on_error": RESET,
                    },
                    "modifies": cur_fields + duck_ghosts,
                },
                sferr.DatabaseError: {
                    "when": None,
                    "ensures": {
                        "C07.closed.code": "implies(not isinstance(exc, snowflake.connector.errors.ProgrammingError), exc.errno == 250002 and exc.sqlstate == '08003')",
                        "C07.frame.on_closed": CTX_SAME,
                    },
                    "modifies": cur_fields + duck_ghosts,
                },
                duckdb.Error: {
                    "when": None,
                    "ensures": {
                        # untranslated engine errors: never the four translated classes from the user statement itself
                        "C07.map.untranslated": "implies(trace_len() == old(trace_len()), not isinstance(exc, (duckdb.BinderException, duckdb.CatalogException, duckdb.ConnectionException)))",
                        "C05.replace.reset_on_raw": RESET,
                        # C13: COMMIT / ROLLBACK outside a transaction are no-ops with the success status, never an error
                        "C13.noop": "not (isinstance(exc, duckdb.TransactionException) and ('cannot rollback - no transaction is active' in exc_message(exc) or 'cannot commit - no transaction is active' in exc_message(exc)) and trace_len() == old(trace_len()))",
                    },
                    "modifies": cur_fields + ctx_fields + duck_ghosts,
                    "frame": True,
                },
            },
            ensures={
                "C03.guard.passed": f"not {BAD} and not {GUARD_DB} and not {GUARD_SCHEMA}",
                # C04: INSERT / UPDATE / DELETE report DuckDB's affected-row count (0 included) in rowcount and in the status row
                "C04.count.rowcount": f"implies(is_dml_count(transformed), trace_len() == {K0} + 2 and self._rowcount == result_count({K0}))",
                "C04.count.status": f"implies(is_dml_count(transformed), trace_at({K0} + 1) == dml_status_sql({CMD}, result_count({K0})))",
                # C04 / C02: DDL status rows name the object: quoted identifiers verbatim, unquoted ones upper-cased
                "C04.status.ddl": f"implies(not {SPECIAL} and not is_dml_count(transformed) and {CMD} in ('CREATE SCHEMA', 'CREATE TABLE', 'CREATE VIEW') and ident_named(transformed), "
                f"trace_at(trace_len() - 1) == ddl_status_sql({CMD}, norm_ident(old(find_ident_dfs(transformed)))))",
                "C04.status.drop": f"implies(not {SPECIAL} and not is_dml_count(transformed) and {CMD}.startswith('DROP') and not {CMD} in ('DESCRIBE TABLE', 'DESCRIBE VIEW') and ident_named(transformed), "
                f"trace_at(trace_len() - 1) == ddl_status_sql('DROP', norm_ident(old(find_ident_dfs(transformed)))))",
                "C04.status.database": f"implies(not {A_('set_database')} and not {A_('set_schema')} and bool({A_('create_db_name')}), trace_at(trace_len() - 1) == ddl_status_sql('CREATE DATABASE', {A_('create_db_name')}))",
                # C06: the statement description will describe is the one whose result the cursor holds
                "C06.describable.is_last": "self._last_sql == trace_at(trace_len() - 1) or trace_len() == old(trace_len())",
                "C10.macro.bootstrap": f"implies(not {A_('set_database')} and not {A_('set_schema')} and bool({A_('create_db_name')}), bootstrapped(upper({A_('create_db_name')})))",
                "C05.replace.table": "is_fresh(self._arrow_table) and self._arrow_table_fetch_index is None",
                "C04.rowcount.query": "implies(not is_dml_count(transformed), self._rowcount == nrows(self._arrow_table))",
                "C06.describable.last": "self._last_params is params and isinstance(self._last_sql, str)",
                "C03.use.database": f"implies(bool({A_('set_database')}), self._conn.database == {A_('set_database')} and self._conn.database_set)",
                "C03.use.schema": f"implies(not {A_('set_database')} and bool({A_('set_schema')}), self._conn.schema == {A_('set_schema')} and self._conn.schema_set and self._conn.database == old(self._conn.database))",
                "C03.ctx.else_unchanged": f"implies(not {A_('set_database')} and not {A_('set_schema')} and not {CMD}.startswith('DROP'), {CTX_SAME})",
            },
            props=["C03", "C04", "C05", "C06", "C07", "C13"],
        )
    )
