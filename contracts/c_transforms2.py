"""More contracts for node-level functions of fakesnow/transforms.py (second batch: C01 type widening, C09 redirects, C10 / C11
rewrites).  As in c_transforms.py each function is applied by `Expression.transform` to every node; the contract is per node."""
from __future__ import annotations

from pyvc.types import Opt
from pyvc.world import Contract


def install(w):
    from sqlglot import exp

    E = exp.Expression
    T = "exp.DataType.Type"
    THIS = "arg(expression, 'this')"
    ARGS_MOD = ["expression.args.$dmap", "expression.args.$dhas", "expression.args.$klen", "expression.args.$kel", "*.parent", "$ghost:$treever"]

    # ------------------------------------------------------------------ C01: the integer family is stored as 64 bit
    SMALL = f"({THIS} in ({T}.INT, {T}.SMALLINT, {T}.TINYINT))"
    FAM = f"(isinstance(expression, exp.DataType) and ({SMALL} or ({THIS} == {T}.DECIMAL and seq_len(node_expressions(expression)) == 0)))"
    w.add_contract(
        Contract(
            "fakesnow.transforms.integer_precision",
            params={"expression": E},
            requires=[],
            result=E,
            modifies=[],
            ensures={
                # INT / SMALLINT / TINYINT and a bare NUMBER (DECIMAL without precision) become BIGINT: no 32-bit narrowing
                "C01.integer.bigint": f"implies(old({FAM}), is_fresh(result) and cls_is(result, exp.DataType) and arg(result, 'this') == {T}.BIGINT)",
                # every other type - NUMBER(p,s) with its declared precision in particular - is left alone
                "C01.integer.else_untouched": f"implies(isinstance(expression, exp.DataType) and not old({FAM}), result is expression)",
                "C01.integer.non_types": f"implies(not isinstance(expression, exp.DataType) and not old({SMALL}), result is expression)",
                "C01.integer.input_unchanged": f"{THIS} == old({THIS})",
            },
            props=["C01"],
        )
    )

    # ------------------------------------------------------------------ C11: ARRAY_SIZE
    IFS = "arg(result, 'ifs')"
    IF0 = f"seq_at({IFS}, 0)"
    w.add_contract(
        Contract(
            "fakesnow.transforms.array_size",
            params={"expression": E},
            requires=[],
            result=E,
            modifies=["*.parent", "$ghost:$treever"],
            ensures={
                # ARRAY_SIZE(v) = CASE WHEN json_array_length(v) THEN json_array_length(v) END over the very same operand
                "C11.array_size.case": f"implies(isinstance(expression, exp.ArraySize), is_fresh(result) and cls_is(result, exp.Case) and is_list({IFS}) and seq_len({IFS}) == 1 "
                f"and isinstance({IF0}, exp.If) and arg({IF0}, 'this') is arg({IF0}, 'true') and cls_is(arg({IF0}, 'this'), exp.Anonymous) "
                f"and arg(arg({IF0}, 'this'), 'this') == 'json_array_length')",
                "C11.array_size.operand": f"implies(isinstance(expression, exp.ArraySize), seq_len(node_expressions(arg({IF0}, 'this'))) == 1 "
                f"and seq_at(node_expressions(arg({IF0}, 'this')), 0) is old({THIS}))",
                "C11.array_size.no_default": "implies(isinstance(expression, exp.ArraySize), not has_arg(result, 'default'))",
                "C11.array_size.else_untouched": "implies(not isinstance(expression, exp.ArraySize), result is expression)",
            },
            props=["C11"],
        )
    )

    # ------------------------------------------------------------------ C10: IDENTIFIER('name')
    IDF = f"(isinstance(expression, exp.Anonymous) and isinstance({THIS}, str) and upper({THIS}) == 'IDENTIFIER')"
    A0 = "seq_at(node_expressions(expression), 0)"
    w.add_contract(
        Contract(
            "fakesnow.transforms.identifier",
            params={"expression": E},
            # field shape (A-SQLGLOT 1): a parsed function call IDENTIFIER(...) has at least one argument, which is a node
            requires=[f"implies({IDF}, seq_len(node_expressions(expression)) >= 1 and isinstance({A0}, exp.Expression))"],
            result=E,
            # the argument's text may itself be a node in an unparsed tree: constructing the identifier re-parents it, nothing else
            modifies=["*.parent", "$ghost:$treever"],
            ensures={
                # IDENTIFIER('t') denotes the object named by its argument: an (unquoted, hence case-folded) identifier of exactly that text
                "C10.identifier.names_argument": f"implies(old({IDF}), is_fresh(result) and cls_is(result, exp.Identifier) and arg(result, 'this') is old(arg({A0}, 'this')) and arg(result, 'quoted') == False)",
                "C10.identifier.else_untouched": f"implies(not old({IDF}), result is expression)",
            },
            props=["C10"],
        )
    )

    # ------------------------------------------------------------------ C10: SAMPLE defaults to BERNOULLI (row sampling)
    TS = "(isinstance(expression, exp.TableSample) and not bool(arg(expression, 'method')))"
    w.add_contract(
        Contract(
            "fakesnow.transforms.sample",
            params={"expression": E},
            requires=[],
            result=E,
            modifies=ARGS_MOD,
            ensures={
                "C10.sample.same_node": "result is expression",
                # Snowflake's default sampling method is BERNOULLI (row); an explicit method is kept
                "C10.sample.bernoulli": f"implies(old({TS}), cls_is(arg(result, 'method'), exp.Var) and arg(arg(result, 'method'), 'this') == 'BERNOULLI')",
                "C10.sample.else_untouched": f"implies(not old({TS}), dict_unchanged(expression.args))",
            },
            props=["C10"],
        )
    )

    # ------------------------------------------------------------------ C09: information_schema.columns -> the Snowflake-vocabulary view
    ISC = ("(isinstance(expression, exp.Table) and bool(expression.db) and upper(expression.db) == 'INFORMATION_SCHEMA' "
           "and bool(expression.name) and upper(expression.name) == 'COLUMNS')")
    w.add_contract(
        Contract(
            "fakesnow.transforms.information_schema_fs_columns_snowflake",
            params={"expression": E},
            requires=[],
            result=E,
            modifies=ARGS_MOD,
            ensures={
                "C09.columns_view.same_node": "result is expression",
                # [db.]information_schema.columns, in any letter case, is answered from the view that carries Snowflake's type names and declared lengths
                "C09.columns_view.redirects": f"implies(old({ISC}), cls_is(arg(result, 'this'), exp.Identifier) and arg(arg(result, 'this'), 'this') == '_FS_COLUMNS_SNOWFLAKE' "
                "and arg(arg(result, 'this'), 'quoted') == False)",
                # the schema and database qualifiers stay (the view of the database that was asked for)
                "C09.columns_view.qualifiers_kept": "arg(result, 'db') is old(arg(expression, 'db')) and arg(result, 'catalog') is old(arg(expression, 'catalog'))",
                "C09.columns_view.else_untouched": f"implies(not old({ISC}), dict_unchanged(expression.args))",
            },
            props=["C09"],
        )
    )

    # ------------------------------------------------------------------ C11: text of an extracted value
    GP = "arg(expression, 'this')"
    PATH = f"arg({GP}, 'expression')"
    JC = f"(isinstance(expression, (exp.Upper, exp.Lower)) and bool({GP}) and isinstance({GP}, exp.JSONExtract) and bool({PATH}) and isinstance({PATH}, exp.JSONPath))"
    w.add_contract(
        Contract(
            "fakesnow.transforms.json_extract_cased_as_varchar",
            params={"expression": E},
            requires=[],
            result=E,
            modifies=ARGS_MOD,
            ensures={
                "C11.cased.same_node": "result is expression",
                # UPPER/LOWER over an extraction work on the raw text (->>) of the same base and path
                "C11.cased.raw_text": f"implies(old({JC}), is_fresh(arg(result, 'this')) and cls_is(arg(result, 'this'), exp.JSONExtractScalar) "
                f"and arg(arg(result, 'this'), 'this') is old(arg({GP}, 'this')) and arg(arg(result, 'this'), 'expression') is old({PATH}))",
                "C11.cased.else_untouched": f"implies(not old({JC}), dict_unchanged(expression.args))",
            },
            props=["C11"],
        )
    )

    install_batch2(w)


def install_batch2(w):
    from sqlglot import exp

    from pyvc.types import ListT

    E = exp.Expression
    T = "exp.DataType.Type"
    THIS = "arg(expression, 'this')"
    A0 = "seq_at(node_expressions(expression), 0)"
    NEW = ["*.parent", "$ghost:$treever"]

    def anon(*names):
        # (a disjunction of equalities rather than `in (tuple)`: the tuple would be one more allocation in every evaluation)
        return f"(isinstance(expression, exp.Anonymous) and isinstance({THIS}, str) and ({' or '.join(f'upper({THIS}) == {n!r}' for n in names)}))"

    def has_arg0(cond):
        # field shape (A-SQLGLOT 1): a parsed call of these functions has at least one argument (a node)
        return f"implies({cond}, seq_len(node_expressions(expression)) >= 1 and isinstance({A0}, exp.Expression))"

    TO = "arg(result, 'to')"
    # ------------------------------------------------------------------ C10: TO_DATE(x) is x cast to DATE
    TD = anon("TO_DATE")
    w.add_contract(
        Contract(
            "fakesnow.transforms.to_date",
            params={"expression": E},
            requires=[has_arg0(TD)],
            result=E,
            modifies=NEW,
            ensures={
                "C10.to_date.cast": f"implies(old({TD}), is_fresh(result) and cls_is(result, exp.Cast) and arg(result, 'this') is old({A0}) and cls_is({TO}, exp.DataType) and arg({TO}, 'this') == {T}.DATE)",
                "C10.to_date.else_untouched": f"implies(not old({TD}), result is expression)",
            },
            props=["C10"],
        )
    )
    # ------------------------------------------------------------------ C10: TO_TIMESTAMP(n) is a TIMESTAMP without time zone
    w.add_contract(
        Contract(
            "fakesnow.transforms.to_timestamp",
            params={"expression": E},
            requires=[],
            result=E,
            modifies=NEW,
            ensures={
                "C10.to_timestamp.ntz": f"implies(isinstance(expression, exp.UnixToTime), is_fresh(result) and cls_is(result, exp.Cast) and arg(result, 'this') is expression and cls_is({TO}, exp.DataType) and arg({TO}, 'this') == {T}.TIMESTAMP)",
                "C10.to_timestamp.else_untouched": "implies(not isinstance(expression, exp.UnixToTime), result is expression)",
            },
            props=["C10"],
        )
    )
    TNTZ = anon("TO_TIMESTAMP_NTZ")
    w.add_contract(
        Contract(
            "fakesnow.transforms.to_timestamp_ntz",
            params={"expression": E},
            requires=[has_arg0(TNTZ)],
            result=E,
            modifies=NEW,
            ensures={
                "C10.to_timestamp_ntz.parses": f"implies(old({TNTZ}), is_fresh(result) and cls_is(result, exp.StrToTime) and arg(result, 'this') is old({A0}) and cls_is(arg(result, 'format'), exp.Literal) "
                "and arg(arg(result, 'format'), 'this') == '%Y-%m-%d %H:%M:%S' and arg(arg(result, 'format'), 'is_string') == True)",
                "C10.to_timestamp_ntz.else_untouched": f"implies(not old({TNTZ}), result is expression)",
            },
            props=["C10"],
        )
    )
    # ------------------------------------------------------------------ C11: TRY_PARSE_JSON(x) is x TRY_CAST to JSON (NULL when not a document)
    TPJ = anon("TRY_PARSE_JSON")
    w.add_contract(
        Contract(
            "fakesnow.transforms.try_parse_json",
            params={"expression": E},
            requires=[has_arg0(TPJ)],
            result=E,
            modifies=NEW,
            ensures={
                "C11.try_parse_json.try_cast": f"implies(old({TPJ}), is_fresh(result) and cls_is(result, exp.TryCast) and arg(result, 'this') is old({A0}) and cls_is({TO}, exp.DataType) and arg({TO}, 'this') == {T}.JSON)",
                "C11.try_parse_json.else_untouched": f"implies(not old({TPJ}), result is expression)",
            },
            props=["C11"],
        )
    )
    # ------------------------------------------------------------------ C11: SPLIT gives a JSON array (to_json over the very same split)
    w.add_contract(
        Contract(
            "fakesnow.transforms.split",
            params={"expression": E},
            requires=[],
            result=E,
            modifies=NEW,
            ensures={
                "C11.split.json_array": "implies(isinstance(expression, exp.Split), is_fresh(result) and cls_is(result, exp.Anonymous) and arg(result, 'this') == 'to_json' "
                "and seq_len(node_expressions(result)) == 1 and seq_at(node_expressions(result), 0) is expression)",
                "C11.split.else_untouched": "implies(not isinstance(expression, exp.Split), result is expression)",
            },
            props=["C11", "C10"],
        )
    )
    # ------------------------------------------------------------------ C09: DROP SCHEMA drops what the schema contains
    DS = "(isinstance(expression, exp.Drop) and bool(arg(expression, 'kind')) and isinstance(arg(expression, 'kind'), str) and upper(arg(expression, 'kind')) == 'SCHEMA')"
    w.add_contract(
        Contract(
            "fakesnow.transforms.drop_schema_cascade",
            params={"expression": E},
            requires=[],
            result=E,
            modifies=[],
            ensures={
                "C09.drop_schema.cascade": f"implies(old({DS}), is_fresh(result) and same_class(result, expression) and arg(result, 'cascade') == True)",
                "C09.drop_schema.else_untouched": f"implies(not old({DS}), result is expression)",
                "C09.drop_schema.input_unchanged": "arg(expression, 'cascade') is old(arg(expression, 'cascade'))",
            },
            props=["C09"],
        )
    )
    # ------------------------------------------------------------------ C10: TO_DECIMAL / TO_NUMERIC / TRY_ forms
    XS = "node_expressions(expression)"
    HASFMT = f"(seq_len({XS}) > 1 and isinstance(seq_at({XS}, 1), exp.Literal) and bool(arg(seq_at({XS}, 1), 'is_string')))"
    TOX = f"node_expressions({TO})"
    w.add_contract(
        Contract(
            "fakesnow.transforms._to_decimal",
            params={"expression": E, "cast_node": type},
            # field shapes (A-SQLGLOT 1): the arguments of a parsed call are nodes, at least one; is_string of a node is a bool or absent
            requires=[f"seq_len({XS}) >= 1", f"isinstance(seq_at({XS}, 0), exp.Expression)", f"implies(seq_len({XS}) > 1, isinstance(seq_at({XS}, 1), exp.Expression))",
                      f"implies(seq_len({XS}) > 2, isinstance(seq_at({XS}, 2), exp.Expression))",
                      f"implies(seq_len({XS}) > 1, arg(seq_at({XS}, 1), 'is_string') is None or isinstance(arg(seq_at({XS}, 1), 'is_string'), bool))",
                      "cast_node is exp.Cast or cast_node is exp.TryCast"],
            # complete case split over the precondition's two admissible classes (the callable is then a constant in each case)
            cases=[{"bind": {"cast_node": exp.Cast}, "label": "Cast"}, {"bind": {"cast_node": exp.TryCast}, "label": "TryCast"}],
            when_facts=True,
            result=E,
            modifies=NEW,
            raises={NotImplementedError: {"when": f"old({HASFMT})", "ensures": {}, "modifies": []}},
            ensures={
                # a form with a format argument is rejected, never answered
                "C10._to_decimal.cast": f"is_fresh(result) and (cls_is(result, exp.Cast) if cast_node is exp.Cast else cls_is(result, exp.TryCast)) and arg(result, 'this') is old(seq_at({XS}, 0)) "
                f"and cls_is({TO}, exp.DataType) and arg({TO}, 'this') == {T}.DECIMAL and seq_len({TOX}) == 2",
                # TO_DECIMAL(x [, p [, s]]): precision defaults to 38, scale to 0
                "C10._to_decimal.precision": f"(seq_at({TOX}, 0) is old(seq_at({XS}, 1))) if old(seq_len({XS})) > 1 else "
                f"(cls_is(seq_at({TOX}, 0), exp.Literal) and arg(seq_at({TOX}, 0), 'this') == '38' and arg(seq_at({TOX}, 0), 'is_string') == False)",
                "C10._to_decimal.scale": f"(seq_at({TOX}, 1) is old(seq_at({XS}, 2))) if old(seq_len({XS})) > 2 else "
                f"(cls_is(seq_at({TOX}, 1), exp.Literal) and arg(seq_at({TOX}, 1), 'this') == '0' and arg(seq_at({TOX}, 1), 'is_string') == False)",
            },
            props=["C10"],
        )
    )

    install_batch3(w)


def install_batch3(w):
    from sqlglot import exp

    E = exp.Expression
    T = "exp.DataType.Type"
    THIS = "arg(expression, 'this')"
    NEW = ["*.parent", "$ghost:$treever"]

    # ------------------------------------------------------------------ C10: ARRAY_AGG gives a JSON array, also as a window function
    AA = "((isinstance(expression, exp.ArrayAgg) and not isinstance(node_parent(expression), exp.Window)) or (isinstance(expression, exp.Window) and isinstance(arg(expression, 'this'), exp.ArrayAgg)))"
    w.add_contract(
        Contract(
            "fakesnow.transforms.array_agg",
            params={"expression": E},
            requires=[],
            result=E,
            modifies=NEW,
            ensures={
                # the aggregate - the whole window expression when it is windowed - is wrapped in TO_JSON, exactly once
                "C10.array_agg.json": f"implies(old({AA}), is_fresh(result) and cls_is(result, exp.Anonymous) and arg(result, 'this') == 'TO_JSON' and seq_len(node_expressions(result)) == 1 "
                "and seq_at(node_expressions(result), 0) is expression)",
                "C10.array_agg.else_untouched": f"implies(not old({AA}), result is expression)",
            },
            props=["C10"],
        )
    )

    # ------------------------------------------------------------------ C01: CREATE TABLE t CLONE s is CREATE TABLE t AS SELECT * FROM s
    CC = "(isinstance(expression, exp.Create) and upper(str(arg(expression, 'kind'))) == 'TABLE' and find_clone(expression) is not None)"
    SEL = "arg(result, 'expression')"
    w.add_contract(
        Contract(
            "fakesnow.transforms.create_clone",
            params={"expression": E},
            requires=[],
            result=E,
            modifies=NEW,
            ensures={
                "C01.clone.ctas": f"implies(old({CC}), is_fresh(result) and cls_is(result, exp.Create) and arg(result, 'kind') == 'TABLE' and arg(result, 'this') is old({THIS}) and cls_is({SEL}, exp.Select))",
                # every column of every row: SELECT * (a single star, nothing else) FROM exactly the cloned object; no WHERE / LIMIT / DISTINCT
                "C01.clone.all_columns": f"implies(old({CC}), seq_len(node_expressions({SEL})) == 1 and cls_is(seq_at(node_expressions({SEL}), 0), exp.Star))",
                "C01.clone.source": f"implies(old({CC}), cls_is(arg({SEL}, 'from'), exp.From) and arg(arg({SEL}, 'from'), 'this') is old(arg(find_clone(expression), 'this')))",
                "C01.clone.all_rows": f"implies(old({CC}), not has_arg({SEL}, 'where') and not has_arg({SEL}, 'limit') and not has_arg({SEL}, 'distinct') and not has_arg({SEL}, 'sample'))",
                "C01.clone.else_untouched": f"implies(not old({CC}), result is expression)",
            },
            props=["C01"],
        )
    )

    # ------------------------------------------------------------------ C10: DATEADD over a string literal works on the literal as a timestamp
    DL = f"(isinstance(expression, exp.DateAdd) and isinstance({THIS}, exp.Literal) and bool(arg({THIS}, 'is_string')))"
    w.add_contract(
        Contract(
            "fakesnow.transforms.dateadd_string_literal_timestamp_cast",
            params={"expression": E},
            requires=[f"implies(isinstance(expression, exp.DateAdd) and isinstance({THIS}, exp.Literal), arg({THIS}, 'is_string') is None or isinstance(arg({THIS}, 'is_string'), bool))"],
            result=E,
            modifies=NEW,
            ensures={
                "C10.dateadd_literal.cast": f"implies(old({DL}), is_fresh(result) and same_class(result, expression) and cls_is(arg(result, 'this'), exp.Cast) and arg(arg(result, 'this'), 'this') is old({THIS}) "
                f"and cls_is(arg(arg(result, 'this'), 'to'), exp.DataType) and arg(arg(arg(result, 'this'), 'to'), 'this') == {T}.TIMESTAMP)",
                "C10.dateadd_literal.else_untouched": f"implies(not old({DL}), result is expression)",
            },
            props=["C10"],
        )
    )


    install_decimal_dispatch(w)


def install_decimal_dispatch(w):
    """to_decimal / try_to_decimal on top of _to_decimal's and _get_to_number_args's contracts"""
    from sqlglot import exp

    E = exp.Expression
    T = "exp.DataType.Type"
    THIS = "arg(expression, 'this')"
    NEW = ["*.parent", "$ghost:$treever"]
    XS = "node_expressions(expression)"
    TO = "arg(result, 'to')"
    TOX = f"node_expressions({TO})"
    HASFMT = f"(seq_len({XS}) > 1 and isinstance(seq_at({XS}, 1), exp.Literal) and bool(arg(seq_at({XS}, 1), 'is_string')))"

    def anon(*names):
        return f"(isinstance(expression, exp.Anonymous) and isinstance({THIS}, str) and ({' or '.join(f'upper({THIS}) == {n!r}' for n in names)}))"

    F_, P_, S_ = "arg(expression, 'format')", "arg(expression, 'precision')", "arg(expression, 'scale')"
    ISFMT = f"(bool({F_}) and isinstance({F_}, exp.Literal) and bool(arg({F_}, 'is_string')))"
    TN = "isinstance(expression, exp.ToNumber)"
    ANON_D = anon("TO_DECIMAL", "TO_NUMERIC")
    LIT = lambda node, text: f"(cls_is({node}, exp.Literal) and arg({node}, 'this') == '{text}' and arg({node}, 'is_string') == False)"  # noqa: E731
    ANON_SHAPES = lambda cond: [  # noqa: E731
        # (trivially true; read first so that the argument list is known to be allocated before entry)
        f"seq_len({XS}) >= 0",
        # field shapes (A-SQLGLOT 1): the arguments of a parsed call are nodes, at least one; is_string of a node is a bool or absent
        f"implies({cond}, seq_len({XS}) >= 1 and isinstance(seq_at({XS}, 0), exp.Expression))",
        f"implies({cond} and seq_len({XS}) > 1, isinstance(seq_at({XS}, 1), exp.Expression))",
        f"implies({cond} and seq_len({XS}) > 2, isinstance(seq_at({XS}, 2), exp.Expression))",
        f"implies({cond} and seq_len({XS}) > 1, arg(seq_at({XS}, 1), 'is_string') is None or isinstance(arg(seq_at({XS}, 1), 'is_string'), bool))",
    ]
    ANON_T = anon("TRY_TO_DECIMAL", "TRY_TO_NUMBER", "TRY_TO_NUMERIC")
    w.add_contract(
        Contract(
            "fakesnow.transforms.try_to_decimal",
            params={"expression": E},
            requires=ANON_SHAPES(ANON_T),
            result=E,
            modifies=NEW,
            raises={NotImplementedError: {"when": f"old({ANON_T} and {HASFMT})", "ensures": {}, "modifies": []}},
            ensures={
                # the TRY_ forms give NULL instead of an error: a TRY_CAST, never a CAST
                "C10.try_to_decimal.try_cast": f"implies(old({ANON_T}), is_fresh(result) and cls_is(result, exp.TryCast) and arg(result, 'this') is old(seq_at({XS}, 0)) and arg({TO}, 'this') == {T}.DECIMAL and seq_len({TOX}) == 2)",
                "C10.try_to_decimal.precision": f"implies(old({ANON_T}), (seq_at({TOX}, 0) is old(seq_at({XS}, 1))) if old(seq_len({XS})) > 1 else {LIT(f'seq_at({TOX}, 0)', '38')})",
                "C10.try_to_decimal.scale": f"implies(old({ANON_T}), (seq_at({TOX}, 1) is old(seq_at({XS}, 2))) if old(seq_len({XS})) > 2 else {LIT(f'seq_at({TOX}, 1)', '0')})",
                "C10.try_to_decimal.else_untouched": f"implies(not old({ANON_T}), result is expression)",
            },
            props=["C10"],
        )
    )
    w.add_contract(
        Contract(
            "fakesnow.transforms.to_decimal",
            params={"expression": E},
            requires=[f"implies({TN}, ({F_} is None or isinstance({F_}, exp.Expression)) and ({P_} is None or isinstance({P_}, exp.Expression)) and ({S_} is None or isinstance({S_}, exp.Expression)))",
                      f"implies({TN} and isinstance({F_}, exp.Expression), arg({F_}, 'is_string') is None or isinstance(arg({F_}, 'is_string'), bool))"] + ANON_SHAPES(ANON_D),
            result=E,
            modifies=NEW,
            raises={NotImplementedError: {"when": f"old(({TN} and {ISFMT}) or (not {TN} and {ANON_D} and {HASFMT}))", "ensures": {}, "modifies": []}},
            ensures={
                "C10.to_decimal.number_cast": f"implies({TN}, is_fresh(result) and cls_is(result, exp.Cast) and arg(result, 'this') is old({THIS}) and cls_is({TO}, exp.DataType) and arg({TO}, 'this') == {T}.DECIMAL and seq_len({TOX}) == 2)",
                # TO_NUMBER(x [, precision [, scale]]): the second argument (parsed into `format` when it is the only one) is the precision; defaults 38 and 0
                "C10.to_decimal.number_precision": f"implies({TN}, (seq_at({TOX}, 0) is old({F_})) if old(bool({F_})) else ((seq_at({TOX}, 0) is old({P_})) if old(bool({P_})) else {LIT(f'seq_at({TOX}, 0)', '38')}))",
                "C10.to_decimal.number_scale": f"implies({TN}, ((seq_at({TOX}, 1) is old({P_})) if old(bool({P_})) else {LIT(f'seq_at({TOX}, 1)', '0')}) if old(bool({F_})) else "
                f"((seq_at({TOX}, 1) is old({S_})) if old(bool({P_}) and bool({S_})) else {LIT(f'seq_at({TOX}, 1)', '0')}))",
                "C10.to_decimal.decimal_cast": f"implies(not {TN} and old({ANON_D}), is_fresh(result) and cls_is(result, exp.Cast) and arg(result, 'this') is old(seq_at({XS}, 0)) and arg({TO}, 'this') == {T}.DECIMAL and seq_len({TOX}) == 2)",
                "C10.to_decimal.decimal_precision": f"implies(not {TN} and old({ANON_D}), (seq_at({TOX}, 0) is old(seq_at({XS}, 1))) if old(seq_len({XS})) > 1 else {LIT(f'seq_at({TOX}, 0)', '38')})",
                "C10.to_decimal.decimal_scale": f"implies(not {TN} and old({ANON_D}), (seq_at({TOX}, 1) is old(seq_at({XS}, 2))) if old(seq_len({XS})) > 2 else {LIT(f'seq_at({TOX}, 1)', '0')})",
                "C10.to_decimal.else_untouched": f"implies(not {TN} and not old({ANON_D}), result is expression)",
            },
            props=["C10"],
        )
    )

    install_batch4(w)


def install_batch4(w):
    from sqlglot import exp

    E = exp.Expression
    T = "exp.DataType.Type"
    NEW = ["*.parent", "$ghost:$treever"]

    # ------------------------------------------------------------------ C10: ARRAY_AGG(x) WITHIN GROUP (ORDER BY ...) orders the aggregate
    WG = "(isinstance(expression, exp.WithinGroup) and find_array_agg(expression) is not None and bool(arg(expression, 'expression')))"
    w.add_contract(
        Contract(
            "fakesnow.transforms.array_agg_within_group",
            params={"expression": E},
            # field shape (A-SQLGLOT 1): WITHIN GROUP's `expression` is the Order node (or absent)
            requires=["implies(isinstance(expression, exp.WithinGroup) and bool(arg(expression, 'expression')), isinstance(arg(expression, 'expression'), exp.Expression))"],
            result=E,
            modifies=NEW,
            ensures={
                # ARRAY_AGG(<the aggregated expression> ORDER BY <exactly the WITHIN GROUP order keys>)
                "C10.within_group.ordered_agg": f"implies(old({WG}), is_fresh(result) and cls_is(result, exp.ArrayAgg) and cls_is(arg(result, 'this'), exp.Order) "
                "and arg(arg(result, 'this'), 'this') is old(arg(find_array_agg(expression), 'this')))",
                "C10.within_group.order_keys": f"implies(old({WG}) and old(seq_len(node_expressions(arg(expression, 'expression')))) > 0, "
                "node_expressions(arg(result, 'this')) is old(node_expressions(arg(expression, 'expression'))))",
                "C10.within_group.else_untouched": f"implies(not old({WG}), result is expression)",
            },
            props=["C10"],
        )
    )

    # ------------------------------------------------------------------ C10: DATEDIFF over string literals works on them as timestamps
    O1, O2 = "arg(result, 'this')", "arg(result, 'expression')"
    L1 = "(isinstance(arg(expression, 'this'), exp.Literal) and bool(arg(arg(expression, 'this'), 'is_string')))"
    L2 = "(isinstance(arg(expression, 'expression'), exp.Literal) and bool(arg(arg(expression, 'expression'), 'is_string')))"
    w.add_contract(
        Contract(
            "fakesnow.transforms.datediff_string_literal_timestamp_cast",
            params={"expression": E},
            # field shapes (A-SQLGLOT 1): both operands of a parsed DATEDIFF are nodes; a Literal's is_string is a bool or absent
            requires=["implies(isinstance(expression, exp.DateDiff), isinstance(arg(expression, 'this'), exp.Expression) and isinstance(arg(expression, 'expression'), exp.Expression))",
                      "implies(isinstance(expression, exp.DateDiff) and isinstance(arg(expression, 'this'), exp.Literal), arg(arg(expression, 'this'), 'is_string') is None or isinstance(arg(arg(expression, 'this'), 'is_string'), bool))",
                      "implies(isinstance(expression, exp.DateDiff) and isinstance(arg(expression, 'expression'), exp.Literal), arg(arg(expression, 'expression'), 'is_string') is None or isinstance(arg(arg(expression, 'expression'), 'is_string'), bool))"],
            result=E,
            modifies=NEW,
            ensures={
                "C10.datediff_literal.copy": "implies(isinstance(expression, exp.DateDiff), is_fresh(result) and same_class(result, expression))",
                "C10.datediff_literal.first": f"implies(isinstance(expression, exp.DateDiff) and old({L1}), cls_is({O1}, exp.Cast) and cls_is(arg({O1}, 'to'), exp.DataType) and arg(arg({O1}, 'to'), 'this') == {T}.TIMESTAMP)",
                "C10.datediff_literal.second": f"implies(isinstance(expression, exp.DateDiff) and old({L2}), cls_is({O2}, exp.Cast) and cls_is(arg({O2}, 'to'), exp.DataType) and arg(arg({O2}, 'to'), 'this') == {T}.TIMESTAMP)",
                "C10.datediff_literal.else_untouched": "implies(not isinstance(expression, exp.DateDiff), result is expression)",
            },
            props=["C10"],
        )
    )

    install_sha(w)


def install_sha(w):
    from sqlglot import exp

    E = exp.Expression
    THIS = "arg(expression, 'this')"
    XS = "node_expressions(expression)"
    NEW = ["*.parent", "$ghost:$treever"]
    LEN = "arg(expression, 'length')"
    S2 = f"(isinstance(expression, exp.SHA2) and (not has_arg(expression, 'length') or arg({LEN}, 'this') == '256'))"
    ARGS_OK = f"(seq_len({XS}) == 1 or (seq_len({XS}) == 2 and arg(seq_at({XS}, 1), 'this') == '256'))"
    HEX = f"(isinstance(expression, exp.Anonymous) and upper({THIS}) == 'SHA2_HEX' and {ARGS_OK})"
    BIN = f"(isinstance(expression, exp.Anonymous) and upper({THIS}) == 'SHA2_BINARY' and {ARGS_OK})"
    w.add_contract(
        Contract(
            "fakesnow.transforms.sha256",
            params={"expression": E},
            # field shapes (A-SQLGLOT 1): an Anonymous call's name is a str and its arguments are nodes; SHA2's length is a node when present
            requires=[f"seq_len({XS}) >= 0",
                      f"implies(isinstance(expression, exp.Anonymous), isinstance({THIS}, str))",
                      f"implies(isinstance(expression, exp.Anonymous) and seq_len({XS}) >= 1, isinstance(seq_at({XS}, 0), exp.Expression))",
                      f"implies(isinstance(expression, exp.Anonymous) and seq_len({XS}) >= 2, isinstance(seq_at({XS}, 1), exp.Expression))",
                      f"implies(isinstance(expression, exp.SHA2) and has_arg(expression, 'length'), isinstance({LEN}, exp.Expression))"],
            result=E,
            modifies=NEW,
            ensures={
                # only the 256-bit digest is answered: SHA2(x) / SHA2(x, 256) / SHA2_HEX(x[, 256]) by sha256(x), SHA2_BINARY by unhex(sha256(x));
                # any other digest length is left for DuckDB to reject
                "C10.sha2.hex": f"implies(old({S2}), is_fresh(result) and cls_is(result, SHA256) and arg(result, 'this') is old({THIS}))",
                "C10.sha2_hex.hex": f"implies(not old({S2}) and old({HEX}), is_fresh(result) and cls_is(result, SHA256) and arg(result, 'this') is old(seq_at({XS}, 0)))",
                "C10.sha2_binary.unhex": f"implies(not old({S2}) and not old({HEX}) and old({BIN}), is_fresh(result) and cls_is(result, exp.Unhex) and cls_is(arg(result, 'this'), SHA256) "
                f"and arg(arg(result, 'this'), 'this') is old(seq_at({XS}, 0)))",
                "C10.sha2.else_untouched": f"implies(not old({S2}) and not old({HEX}) and not old({BIN}), result is expression)",
            },
            props=["C10"],
        )
    )

    install_flatten(w)


def install_flatten(w):
    from sqlglot import exp

    E = exp.Expression
    T = "exp.DataType.Type"
    NEW = ["*.parent", "$ghost:$treever"]
    AL = "arg(expression, 'alias')"
    EXPL = "arg(expression, 'this')"
    FL = f"(isinstance(expression, exp.Lateral) and isinstance({EXPL}, exp.Explode) and bool({AL}) and isinstance({AL}, exp.TableAlias))"
    UN = "arg(result, 'this')"
    C0 = f"seq_at(node_expressions({UN}), 0)"
    RAL = "arg(result, 'alias')"
    COLS = f"arg({RAL}, 'columns')"
    w.add_contract(
        Contract(
            "fakesnow.transforms.flatten",
            params={"expression": E},
            # field shape (A-SQLGLOT 1): FLATTEN(input => v) is parsed as Explode(this=<input => v>), a node
            requires=[f"implies(isinstance(expression, exp.Lateral) and isinstance({EXPL}, exp.Explode), isinstance(arg({EXPL}, 'this'), exp.Expression))"],
            result=E,
            modifies=NEW,
            ensures={
                # LATERAL FLATTEN(input => v) [alias] unnests exactly v, read as an array of JSON documents (every element once, in order: UNNEST),
                # under the same alias, with the element column named VALUE (unquoted)
                "C11.flatten.unnest": f"implies(old({FL}), is_fresh(result) and cls_is(result, exp.Lateral) and cls_is({UN}, exp.Unnest) and seq_len(node_expressions({UN})) == 1 "
                f"and cls_is({C0}, exp.Cast) and arg({C0}, 'this') is old(arg(arg({EXPL}, 'this'), 'expression')))",
                "C11.flatten.json_array": f"implies(old({FL}), cls_is(arg({C0}, 'to'), exp.DataType) and arg(arg({C0}, 'to'), 'this') == {T}.ARRAY and seq_len(node_expressions(arg({C0}, 'to'))) == 1 "
                f"and arg(seq_at(node_expressions(arg({C0}, 'to')), 0), 'this') == {T}.JSON)",
                "C11.flatten.alias": f"implies(old({FL}), cls_is({RAL}, exp.TableAlias) and arg({RAL}, 'this') is old(arg({AL}, 'this')) and is_list({COLS}) and seq_len({COLS}) == 1 "
                f"and cls_is(seq_at({COLS}, 0), exp.Identifier) and arg(seq_at({COLS}, 0), 'this') == 'VALUE' and arg(seq_at({COLS}, 0), 'quoted') == False)",
                "C11.flatten.else_untouched": f"implies(not old({FL}), result is expression)",
            },
            props=["C11"],
        )
    )
