"""Per-property registry: which functions under contract carry it, bounded module, level, trusted base."""
from .targets import T

F = lambda k: T[k]  # noqa: E731
A_DUCK = "A-DUCK: DuckDB 1.0 semantics of the statements it is given (storage, SQL semantics, transactions, errors)"
A_SQLGLOT = "A-SQLGLOT: sqlglot 25.24.5 parser / generator / Expression API"
A_WF = "A-WF: the transform pipeline hands _execute a statement whose bookkeeping arguments are well formed (assumed postcondition of FakeSnowflakeCursor._transform; exercised by the bounded tier)"

PROPERTIES = {
    "C03": {
        "level": "proof",
        "targets": [F("conn.FakeSnowflakeConnection.__init__"), F("instance.FakeSnow.connect"), F("conn.FakeSnowflakeConnection.cursor"), F("checks.is_unqualified_table_expression"),
                    F("expr.key_command"), F("cursor.FakeSnowflakeCursor._transform"), F("cursor.FakeSnowflakeCursor._execute")],
        "bounded": "bounded.C03",
        "trusted_base": [A_DUCK, A_SQLGLOT, A_WF],
        "explanation": "Deductive: connect establishes the session context (conn.database/schema, *_set flags and DuckDB's search path agree; own DuckDB cursor per connection); "
        "_execute raises 90105/90106 (sqlstate 22000) exactly when the statement's first table needs a database/schema the session lacks, before anything is executed; USE DATABASE/SCHEMA update "
        "the context only after DuckDB accepted the statement; every other statement leaves the context alone; USE and SHOW are resolved against this connection's database (pipeline arguments). "
        "Bounded: USE/CREATE/DROP histories on two connections of one instance on the real stack.",
        "not_decided_here": "that DuckDB resolves an unqualified name against the search path set by SET schema (A-DUCK); statements with several tables are classified by their first table only (known finding)",
    },
    "C04": {
        "level": "proof",
        "targets": [F("expr.key_command"), F("cursor.FakeSnowflakeCursor._execute")],
        "bounded": "bounded.C04",
        "trusted_base": [A_DUCK, A_SQLGLOT, A_WF],
        "explanation": "Deductive: key_command classifies statements per the property's table; for INSERT/UPDATE/DELETE _execute reads DuckDB's affected-row count, instantiates the Snowflake status "
        "row with it and sets rowcount to it (0 included); DDL status rows name the object with Snowflake's identifier normalisation; for queries rowcount is the number of result rows. "
        "Bounded: DML histories with NULLs/duplicates against a Python reference on the real stack.",
        "not_decided_here": "that DuckDB changes exactly the right rows (SQL semantics, A-DUCK): bounded tier only",
    },
    "C05": {
        "level": "proof",
        "targets": [F("cursor.FakeSnowflakeCursor.fetchmany"), F("cursor.FakeSnowflakeCursor.fetchone"), F("cursor.FakeSnowflakeCursor.fetchall"), F("cursor.FakeSnowflakeCursor.__init__"),
                    F("conn.FakeSnowflakeConnection.cursor"), F("cursor.FakeSnowflakeCursor._execute"), F("cursor.FakeSnowflakeCursor.execute")],
        "bounded": "bounded.C05",
        "trusted_base": [A_DUCK],
        "explanation": "Deductive: contracts on the real FakeSnowflakeCursor.fetchmany/fetchone/fetchall (source re-read from the repo on every run, "
        "symbolically executed, callee contracts only). fetchmany returns rows pos..pos+k-1 of the result table at full width "
        "(tuple element c == cell c, dict keyed by the column names), advances the position by k and changes nothing else; fetchone/fetchall are "
        "proved against fetchmany's contract; a new cursor has no result set (TypeError); _execute/execute replace table, position and rowcount completely. "
        "Exactly-once / in-order / empty-for-ever for every call sequence follows by induction over the per-call contracts. "
        "Bounded (not counted as proof): every fetch sequence up to the stated length on the real DuckDB/pyarrow stack.",
        "not_decided_here": "that DuckDB's arrow result holds the statement's rows in result order (A-DUCK 6) and pyarrow's slice/to_pylist semantics (A-ARROW) are assumed, probed by the bounded tier only",
    },
    "C06": {
        "level": "proof",
        "targets": [F("types.describe_as_rowtype.<locals>.as_column_info"), F("types.describe_as_rowtype"), F("cursor.FakeSnowflakeCursor._describe_last_sql"), F("cursor.FakeSnowflakeCursor._execute")],
        "bounded": "bounded.C06",
        "trusted_base": [A_DUCK, A_SQLGLOT, A_WF],
        "explanation": "Deductive: the DuckDB-type -> Snowflake rowtype table is proved against the property's table for every type of the (finite) domain, one entry per describe row in order; "
        "_describe_last_sql modifies nothing reachable from the cursor or its connection and runs only on the connection's own DuckDB connection; "
        "_execute leaves in _last_sql the statement whose result the cursor holds. Bounded: description vs describe() vs fetched Python values over statement kinds on the real stack.",
        "not_decided_here": "that DESCRIBE of the kept statement text reports the types of the held result (A-DUCK)",
    },
    "C07": {
        "level": "proof",
        "targets": [F("cursor.FakeSnowflakeCursor._execute"), F("cursor.FakeSnowflakeCursor.execute"), F("variables.Variables.inline_variables"), F("cursor.FakeSnowflakeCursor._inline_variables"),
                    F("conn.FakeSnowflakeConnection.close"), F("checks.is_unqualified_table_expression"), F("cursor.FakeSnowflakeCursor._log_sql")],
        "bounded": "bounded.C07",
        "trusted_base": [A_DUCK, A_SQLGLOT, A_WF],
        "explanation": "Deductive: exceptional postconditions of _execute (BinderException -> 2043/02000, CatalogException -> 2003/42S02, ConnectionException -> DatabaseError 250002/08003, "
        "context errors 90105/90106/22000, nothing else translated), session context unchanged on every translated error, result set reset; execute resets sqlstate first and sets it from every "
        "ProgrammingError; an undefined variable is reported before anything is parsed or executed. Bounded: error codes and state-unchanged for missing/duplicate objects on the real stack.",
        "not_decided_here": "which DuckDB exception class a given cause produces (A-DUCK 1): bounded tier only",
    },
    "C08": {
        "level": "proof",
        "targets": [F("cursor.FakeSnowflakeCursor._rewrite_with_params"), F("cursor.FakeSnowflakeCursor.execute"), F("cursor.FakeSnowflakeCursor.executemany"), F("cursor.FakeSnowflakeCursor._inline_variables"),
                    F("conn.FakeSnowflakeConnection.__init__")],
        "bounded": "bounded.C08",
        "trusted_base": ["A-SFC: quote(escape(to_snowflake(v))) is a Snowflake literal denoting v", A_DUCK, A_SQLGLOT],
        "explanation": "Deductive: with pyformat/format every parameter value is converted exactly once by the connector's own converter and substituted with %, the paramstyle read is the one stored "
        "on the connection at connect; otherwise command and parameters pass through untouched to DuckDB; variables are inlined in the command text only and before parameters are substituted; "
        "executemany executes once per parameter set, in order. Bounded: adversarial values x paramstyles round trip on the real stack.",
        "not_decided_here": "that the quoted literal denotes the value and cannot terminate itself (A-SFC): bounded tier only",
    },
    "C13": {
        "level": "proof",
        "targets": [F("instance.FakeSnow.connect"), F("conn.FakeSnowflakeConnection.cursor"), F("conn.FakeSnowflakeConnection.commit"), F("conn.FakeSnowflakeConnection.rollback"),
                    F("cursor.FakeSnowflakeCursor._execute"), F("conn.FakeSnowflakeConnection.__init__")],
        "bounded": "bounded.C13",
        "trusted_base": [A_DUCK],
        "explanation": "Deductive (fakesnow-side obligations only): each connect gets its own DuckDB connection object and all cursors of a connection share it; COMMIT/ROLLBACK outside a transaction end "
        "normally with the success status and every other transaction error propagates; conn.commit()/rollback() execute exactly COMMIT/ROLLBACK; every statement of a call runs on the cursor's own "
        "DuckDB connection. Atomicity, isolation and visibility at COMMIT are DuckDB's (assumed). Bounded: statement-level interleavings of two connections on the real stack.",
        "not_decided_here": "atomicity / isolation / visibility (DuckDB MVCC, A-DUCK 4): bounded tier only",
    },
    "C14": {
        "level": "proof",
        "targets": [F("conn.FakeSnowflakeConnection.__init__"), F("instance.FakeSnow.connect")],
        "bounded": "bounded.C14",
        "trusted_base": [A_DUCK],
        "explanation": "Deductive: FakeSnowflakeConnection.__init__ never raises, attaches the database / creates the schema exactly when the options allow and the object is missing, touches no other "
        "catalog object, sets database_set/schema_set exactly when the objects exist afterwards, reports upper-cased names, bootstraps a new database and names its file as db_file(db_path, NAME); "
        "FakeSnow.connect forwards the instance's options. Bounded: the complete product of configurations on the real stack.",
        "not_decided_here": "meaning of the seven SQL templates of connect (A-DUCK 3): matched syntactically, exercised by the bounded product",
    },
    "C16": {
        "level": "proof",
        "targets": [F("cursor.FakeSnowflakeCursor.execute"), F("cursor.FakeSnowflakeCursor._execute"), F("conn.FakeSnowflakeConnection.__init__")],
        "bounded": "bounded.C16",
        "trusted_base": [A_DUCK, A_SQLGLOT, "A-PY re.match"],
        "explanation": "Deductive: when execute takes the no-op path nothing is parsed or transformed and exactly the success select runs, and that path exists only when nop_regexes is configured; "
        "the connection keeps the configured patterns. execute_string (a filtered comprehension with effects) is outside the verifier's subset: decided by the bounded tier only "
        "(execute_string(text) against one-by-one execution; nop patterns that do / do not match).",
        "not_decided_here": "execute_string (bounded only); that re.match decides 'matches at the start' (A-PY)",
    },
    "C20": {
        "level": "proof",
        "targets": [F("cli.split")],
        "bounded": "bounded.C20",
        "trusted_base": ["A-PY argparse for the parser built by arg_parser()"],
        "explanation": "Deductive: cli.split cuts the argument list exactly after the target spec for every argument list in the property's domain (loop invariant against a recursive scanner "
        "specification taken from fakesnow's option table). patch() (a generator-based context manager using mock.patch) is outside the verifier's subset: bounded only.",
        "not_decided_here": "patch() restore behaviour and cli.main wiring: bounded tier only",
    },
}
