"""Per-property registry: which functions under contract carry it, bounded module, level, trusted base."""
from .targets import T

F = lambda k: T[k]  # noqa: E731
A_DUCK = "A-DUCK: DuckDB 1.0 semantics of the statements it is given (storage, SQL semantics, transactions, errors)"
A_SQLGLOT = "A-SQLGLOT: sqlglot 25.24.5 parser / generator / Expression API"
A_WF = "A-WF: the transform pipeline hands _execute a statement whose bookkeeping arguments are well formed (assumed postcondition of FakeSnowflakeCursor._transform; exercised by the bounded tier)"

PROPERTIES = {
    "C03": {
        "level": "proof",
        "targets": [F("conn.FakeSnowflakeConnection.__init__"), F("instance.FakeSnow.connect"), F("conn.FakeSnowflakeConnection.cursor"), F("checks.is_unqualified_table_expression"),
                    F("expr.key_command"), F("transforms.set_schema"), F("transforms.describe_table"), F("transforms.show_schemas"), F("transforms.show_objects_tables"),
                    F("cursor.FakeSnowflakeCursor._transform"), F("cursor.FakeSnowflakeCursor._execute")],
        "bounded": "bounded.C03",
        "trusted_base": [A_DUCK, A_SQLGLOT, A_WF],
        "explanation": "Deductive: connect establishes the session context (conn.database/schema, *_set flags and DuckDB's search path agree; own DuckDB cursor per connection); "
        "_execute raises 90105/90106 (sqlstate 22000) exactly when the statement's first table needs a database/schema the session lacks, before anything is executed; USE DATABASE/SCHEMA update "
        "the context only after DuckDB accepted the statement; every other statement leaves the context alone; USE and SHOW are resolved against this connection's database (pipeline arguments); "
        "set_schema turns USE DATABASE d / USE SCHEMA [d.]s into SET schema = 'd.main' / 'd.s' (the qualifier, else the session's database) and records exactly those names for the bookkeeping. "
        "Bounded: USE/CREATE/DROP histories on two connections of one instance on the real stack.",
        "not_decided_here": "that DuckDB resolves an unqualified name against the search path set by SET schema (A-DUCK); statements with several tables are classified by their first table only (known finding)",
    },
    "C04": {
        "level": "proof",
        "targets": [F("expr.key_command"), F("cursor.FakeSnowflakeCursor._execute"), F("cursor.FakeSnowflakeCursor.execute")],
        # a DML statement must reach _execute: execute may replace a statement by the no-op only when a configured pattern matches at its start
        "also": {"fakesnow.cursor.FakeSnowflakeCursor.execute": [r"C16\.nop\.only_at_start", r"C16\.nop\.only_if_configured"]},
        "labelled_only": ["fakesnow.cursor.FakeSnowflakeCursor.execute"],
        "bounded": "bounded.C04",
        "trusted_base": [A_DUCK, A_SQLGLOT, A_WF],
        "explanation": "Deductive: key_command classifies statements per the property's table; for INSERT/UPDATE/DELETE _execute reads DuckDB's affected-row count, instantiates the Snowflake status "
        "row with it and sets rowcount to it (0 included); DDL status rows name the object with Snowflake's identifier normalisation; for queries rowcount is the number of result rows. "
        "Bounded: DML histories with NULLs/duplicates against a Python reference on the real stack.",
        "not_decided_here": "that DuckDB changes exactly the right rows (SQL semantics, A-DUCK): bounded tier only",
    },
    "C05": {
        "level": "proof",
        "targets": [F("cursor.FakeSnowflakeCursor.fetchmany"), F("cursor.FakeSnowflakeCursor.fetchone"), F("cursor.FakeSnowflakeCursor.fetchall"), F("cursor.FakeSnowflakeCursor.__init__"),
                    F("conn.FakeSnowflakeConnection.cursor"), F("cursor.FakeSnowflakeCursor._execute"), F("cursor.FakeSnowflakeCursor.execute")],
        "bounded": "bounded.C05",
        "trusted_base": [A_DUCK],
        "explanation": "Deductive: contracts on the real FakeSnowflakeCursor.fetchmany/fetchone/fetchall (source re-read from the repo on every run, "
        "symbolically executed, callee contracts only). fetchmany returns rows pos..pos+k-1 of the result table at full width "
        "(tuple element c == cell c, dict keyed by the column names), advances the position by k and changes nothing else; fetchone/fetchall are "
        "proved against fetchmany's contract; a new cursor has no result set (TypeError); _execute/execute replace table, position and rowcount completely. "
        "Exactly-once / in-order / empty-for-ever for every call sequence follows by induction over the per-call contracts. "
        "Bounded (not counted as proof): every fetch sequence up to the stated length on the real DuckDB/pyarrow stack.",
        "not_decided_here": "that DuckDB's arrow result holds the statement's rows in result order (A-DUCK 6) and pyarrow's slice/to_pylist semantics (A-ARROW) are assumed, probed by the bounded tier only",
    },
    "C06": {
        "level": "proof",
        "targets": [F("types.describe_as_rowtype.<locals>.as_column_info"), F("types.describe_as_rowtype"), F("cursor.FakeSnowflakeCursor._describe_last_sql"), F("cursor.FakeSnowflakeCursor._execute")],
        "bounded": "bounded.C06",
        "trusted_base": [A_DUCK, A_SQLGLOT, A_WF],
        "explanation": "Deductive: the DuckDB-type -> Snowflake rowtype table is proved against the property's table for every type of the (finite) domain, one entry per describe row in order; "
        "_describe_last_sql modifies nothing reachable from the cursor or its connection and runs only on the connection's own DuckDB connection; "
        "_execute leaves in _last_sql the statement whose result the cursor holds. Bounded: description vs describe() vs fetched Python values over statement kinds on the real stack.",
        "not_decided_here": "that DESCRIBE of the kept statement text reports the types of the held result (A-DUCK)",
    },
    "C07": {
        "level": "proof",
        "targets": [F("cursor.FakeSnowflakeCursor._execute"), F("cursor.FakeSnowflakeCursor.execute"), F("variables.Variables.inline_variables"), F("cursor.FakeSnowflakeCursor._inline_variables"),
                    F("conn.FakeSnowflakeConnection.close"), F("checks.is_unqualified_table_expression"), F("cursor.FakeSnowflakeCursor._log_sql")],
        # the two context errors are part of C07's code table; their clauses are labelled for C03
        "also": {"fakesnow.cursor.FakeSnowflakeCursor._execute": [r"C03\.guard\."]},
        "bounded": "bounded.C07",
        "trusted_base": [A_DUCK, A_SQLGLOT, A_WF],
        "explanation": "Deductive: exceptional postconditions of _execute (BinderException -> 2043/02000, CatalogException -> 2003/42S02, ConnectionException -> DatabaseError 250002/08003, "
        "context errors 90105/90106/22000, nothing else translated), session context unchanged on every translated error, result set reset; execute resets sqlstate first and sets it from every "
        "ProgrammingError; an undefined variable is reported before anything is parsed or executed. Bounded: error codes and state-unchanged for missing/duplicate objects on the real stack.",
        "not_decided_here": "which DuckDB exception class a given cause produces (A-DUCK 1): bounded tier only",
    },
    "C08": {
        "level": "proof",
        "targets": [F("cursor.FakeSnowflakeCursor._rewrite_with_params"), F("cursor.FakeSnowflakeCursor.execute"), F("cursor.FakeSnowflakeCursor.executemany"), F("cursor.FakeSnowflakeCursor._inline_variables"),
                    F("conn.FakeSnowflakeConnection.__init__")],
        "bounded": "bounded.C08",
        "trusted_base": ["A-SFC: quote(escape(to_snowflake(v))) is a Snowflake literal denoting v", A_DUCK, A_SQLGLOT],
        "explanation": "Deductive: with pyformat/format every parameter value is converted exactly once by the connector's own converter and substituted with %, the paramstyle read is the one stored "
        "on the connection at connect; otherwise command and parameters pass through untouched to DuckDB; variables are inlined in the command text only and before parameters are substituted; "
        "executemany executes once per parameter set, in order. Bounded: adversarial values x paramstyles round trip on the real stack.",
        "not_decided_here": "that the quoted literal denotes the value and cannot terminate itself (A-SFC): bounded tier only",
    },
    "C13": {
        "level": "proof",
        "targets": [F("instance.FakeSnow.connect"), F("conn.FakeSnowflakeConnection.cursor"), F("conn.FakeSnowflakeConnection.commit"), F("conn.FakeSnowflakeConnection.rollback"),
                    F("cursor.FakeSnowflakeCursor._execute"), F("conn.FakeSnowflakeConnection.__init__")],
        "bounded": "bounded.C13",
        "trusted_base": [A_DUCK],
        "explanation": "Deductive (fakesnow-side obligations only): each connect gets its own DuckDB connection object and all cursors of a connection share it; COMMIT/ROLLBACK outside a transaction end "
        "normally with the success status and every other transaction error propagates; conn.commit()/rollback() execute exactly COMMIT/ROLLBACK; every statement of a call runs on the cursor's own "
        "DuckDB connection. Atomicity, isolation and visibility at COMMIT are DuckDB's (assumed). Bounded: statement-level interleavings of two connections on the real stack.",
        "not_decided_here": "atomicity / isolation / visibility (DuckDB MVCC, A-DUCK 4): bounded tier only",
    },
    "C14": {
        "level": "proof",
        "targets": [F("conn.FakeSnowflakeConnection.__init__"), F("instance.FakeSnow.connect"), F("transforms.create_database")],
        "bounded": "bounded.C14",
        "trusted_base": [A_DUCK],
        "explanation": "Deductive: FakeSnowflakeConnection.__init__ never raises, attaches the database / creates the schema exactly when the options allow and the object is missing, touches no other "
        "catalog object, sets database_set/schema_set exactly when the objects exist afterwards, reports upper-cased names, bootstraps a new database and names its file as db_file(db_path, NAME); "
        "FakeSnow.connect forwards the instance's options; a database created by statement (transforms.create_database) is attached under the same file function db_file(db_path, name). "
        "Bounded: the complete product of configurations on the real stack.",
        "not_decided_here": "meaning of the seven SQL templates of connect (A-DUCK 3): matched syntactically, exercised by the bounded product",
    },
    "C16": {
        "level": "proof",
        "targets": [F("cursor.FakeSnowflakeCursor.execute"), F("cursor.FakeSnowflakeCursor._execute"), F("conn.FakeSnowflakeConnection.__init__")],
        "bounded": "bounded.C16",
        "trusted_base": [A_DUCK, A_SQLGLOT, "A-PY re.match"],
        "explanation": "Deductive: when execute takes the no-op path nothing is parsed or transformed and exactly the success select runs, and that path exists only when nop_regexes is configured; "
        "the connection keeps the configured patterns. execute_string (a filtered comprehension with effects) is outside the verifier's subset: decided by the bounded tier only "
        "(execute_string(text) against one-by-one execution; nop patterns that do / do not match).",
        "not_decided_here": "execute_string (bounded only); that re.match decides 'matches at the start' (A-PY)",
    },
    "C20": {
        "level": "proof",
        "targets": [F("cli.split")],
        "bounded": "bounded.C20",
        "trusted_base": ["A-PY argparse for the parser built by arg_parser()"],
        "explanation": "Deductive: cli.split cuts the argument list exactly after the target spec for every argument list in the property's domain (loop invariant against a recursive scanner "
        "specification taken from fakesnow's option table). patch() (a generator-based context manager using mock.patch) is outside the verifier's subset: bounded only.",
        "not_decided_here": "patch() restore behaviour and cli.main wiring: bounded tier only",
    },
    # ---- properties whose content is mostly SQL / engine semantics: a deductive slice (fakesnow-side plumbing) plus a bounded differential tier
    "C01": {
        "level": "other",
        "targets": [F("conn.FakeSnowflakeConnection.__init__"), F("cursor.FakeSnowflakeCursor.fetchmany"), F("cursor.FakeSnowflakeCursor.fetchone"), F("cursor.FakeSnowflakeCursor.fetchall"),
                    F("transforms.float_to_double"), F("transforms.semi_structured_types"), F("transforms.timestamp_ntz"), F("transforms.integer_precision"), F("transforms.create_clone")],
        "also": {"fakesnow.cursor.FakeSnowflakeCursor.fetchmany": [r"C05\.fetchmany"], "fakesnow.cursor.FakeSnowflakeCursor.fetchone": [r"C05\.fetchone"], "fakesnow.cursor.FakeSnowflakeCursor.fetchall": [r"C05\.fetchall"]},
        "bounded": "bounded.C01",
        "trusted_base": [A_DUCK, "A-ARROW: pyarrow to_pylist conversion of DuckDB's arrow result to Python values"],
        "explanation": "The value conversions themselves (DuckDB storage, arrow -> Python) are outside any contract on fakesnow code. Deductive slice: connect sets the session time zone to UTC as its last bootstrap "
        "statement (timestamps come back naive / UTC-aware); fetchmany/fetchone/fetchall hand out the cells of the held arrow table unchanged, each row exactly once, NULL as None. "
        "Bounded (deciding tier for the value semantics): every supported column type x boundary values x write path (literal, bound parameter, INSERT..SELECT, CTAS, CLONE, write_pandas) read back and compared.",
        "not_decided_here": "value/type conversion by DuckDB and pyarrow for every value of every type: bounded tier only",
    },
    "C02": {
        "level": "other",
        "targets": [F("checks.equal"), F("transforms.upper_case_unquoted_identifiers"), F("cursor.FakeSnowflakeCursor._transform"), F("conn.FakeSnowflakeConnection.__init__"), F("cursor.FakeSnowflakeCursor._execute")],
        "also": {"fakesnow.conn.FakeSnowflakeConnection.__init__": [r"C14\.names"], "fakesnow.cursor.FakeSnowflakeCursor._execute": [r"C04\.status\.", r"C03\.use\.(database|schema)\."]},
        "labelled_only": ["fakesnow.cursor.FakeSnowflakeCursor._execute", "fakesnow.conn.FakeSnowflakeConnection.__init__"],
        "bounded": "bounded.C02",
        "trusted_base": [A_DUCK, A_SQLGLOT, A_WF, "A-SQLGLOT 2: Expression.transform applies the node function to every node of the statement"],
        "explanation": "Deductive slice: checks.equal is Snowflake identifier equality (fold unquoted, keep quoted) for all identifier pairs; upper_case_unquoted_identifiers turns exactly the unquoted identifiers into "
        "upper-case copies and hands every other node back untouched; it is the first transform of every statement "
        "and runs before the transforms that produce status / context (set_schema, show_*); conn.database/schema are the upper-cased arguments; status messages and USE bookkeeping use the normalised name. "
        "Bounded (deciding tier): scenario histories of every statement kind re-spelled (keywords x identifiers in lower / UPPER / mIxEd / random, quoted upper-case naming) against the all-upper baseline.",
        "not_decided_here": "case-insensitivity of sqlglot's parser and DuckDB's resolution for every statement: bounded tier only",
    },
    "C09": {
        "level": "other",
        "targets": [F("info_schema.insert_table_comment_sql"), F("info_schema.insert_text_lengths_sql"), F("transforms.extract_comment_on_table"), F("transforms.information_schema_fs_columns_snowflake"), F("transforms.drop_schema_cascade"), F("transforms.show_schemas"), F("transforms.show_objects_tables"), F("transforms.describe_table"),
                    F("types.describe_as_rowtype.<locals>.as_column_info"), F("cursor.FakeSnowflakeCursor._execute")],
        "also": {"fakesnow.types.describe_as_rowtype.<locals>.as_column_info": [r"C06\.rowtype\."], "fakesnow.cursor.FakeSnowflakeCursor._execute": [r"C09\."],
                 "fakesnow.transforms.describe_table": [r"C03\.describe\."], "fakesnow.transforms.show_schemas": [r"C03\.show_schemas\."], "fakesnow.transforms.show_objects_tables": [r"C03\.show_objects\."]},
        "labelled_only": ["fakesnow.cursor.FakeSnowflakeCursor._execute"],
        "bounded": "bounded.C09",
        "trusted_base": [A_DUCK, A_SQLGLOT, A_WF, "the information_schema view definitions (SQL text in info_schema.py) are DuckDB programs, not Python: outside the verifier"],
        "explanation": "The agreement of the metadata views with the live catalog is decided by SQL view definitions executed by DuckDB. Deductive slice: the side-table SQL builders are total; after a CREATE TABLE with "
        "declared text lengths / a comment statement _execute records them for the statement's own catalog.schema.table on the cursor's DuckDB connection; the Snowflake type names, precision and scale "
        "of a description come from the proved rowtype table. Bounded (deciding tier): DDL histories against a reference catalog, all metadata surfaces compared in every scope.",
        "not_decided_here": "the information_schema / SHOW SQL itself: bounded tier only",
    },
    "C10": {
        "level": "other",
        "targets": [F("transforms.values_columns"), F("transforms.dateadd_date_cast"), F("transforms.regex_replace"), F("transforms._get_to_number_args"),
                    F("transforms._to_decimal"), F("transforms.to_decimal"), F("transforms.try_to_decimal"), F("transforms.to_date"), F("transforms.to_timestamp"), F("transforms.to_timestamp_ntz"), F("transforms.identifier"), F("transforms.sample"), F("transforms.array_agg"), F("transforms.array_agg_within_group"), F("transforms.dateadd_string_literal_timestamp_cast"), F("transforms.datediff_string_literal_timestamp_cast"), F("transforms.sha256"),
                    F("cursor.FakeSnowflakeCursor._transform"), F("cursor.FakeSnowflakeCursor._execute")],
        "also": {"fakesnow.cursor.FakeSnowflakeCursor._transform": [r"C11\.pipeline\.order"]},
        "labelled_only": ["fakesnow.cursor.FakeSnowflakeCursor._execute"],
        "bounded": "bounded.C10",
        "trusted_base": [A_DUCK, A_SQLGLOT, "A-TX: the node-level rewrite functions in transforms.py (pattern matches over sqlglot trees) are not under contract"],
        "explanation": "What a rewritten function returns is decided by DuckDB evaluating the rewritten SQL. Deductive slice: every statement passes through the whole transform pipeline in the fixed order "
        "(each rewrite applied exactly once, to the output of the previous one), and a database created by a statement gets the macros the rewrites rely on. "
        "Bounded (deciding tier): each function of the property x argument lists x syntactic contexts (select list, WHERE, nested, DML, view, CTE) against Snowflake's documented results.",
        "not_decided_here": "value and type semantics of each rewrite: bounded tier only",
    },
    "C11": {
        "level": "other",
        "targets": [F("transforms.indices_to_json_extract"), F("transforms.json_extract_precedence"), F("transforms.flatten_value_cast_as_varchar"), F("transforms.semi_structured_types"),
                    F("transforms.flatten"), F("transforms.array_size"), F("transforms.try_parse_json"), F("transforms.split"), F("transforms.json_extract_cased_as_varchar"),
                    F("cursor.FakeSnowflakeCursor._transform")],
        "also": {"fakesnow.transforms.semi_structured_types": [r"C01\.semi\."]},
        "bounded": "bounded.C11",
        "trusted_base": [A_DUCK, A_SQLGLOT, "A-TX: node-level JSON rewrites in transforms.py are not under contract"],
        "explanation": "JSON semantics are decided by DuckDB's json extension on the rewritten SQL. Deductive slice: the order-sensitive JSON rewrites run in the order their correctness depends on "
        "(trim/cast handling before json_extract_cast_as_varchar, precedence fix after extraction, ...) for every statement. "
        "Bounded (deciding tier): JSON documents x paths x casts x contexts against navigating the same document in Python.",
        "not_decided_here": "JSON navigation / cast semantics: bounded tier only",
    },
    "C12": {
        "level": "other",
        "targets": [F("transforms_merge.merge"), F("cursor.FakeSnowflakeCursor._transform_explode"), F("checks.equal")],
        "also": {"fakesnow.checks.equal": [r"C02\.equal"]},
        "bounded": "bounded.C12",
        "trusted_base": [A_DUCK, A_SQLGLOT, "assumed contracts of _create_merge_candidates / _mutations / _counts (templates over sqlglot trees; exercised by the bounded tier)"],
        "explanation": "Deductive slice: merge() turns a MERGE into candidates + one mutation per WHEN clause (in clause order) + counts, in that order, parses each generated statement exactly once, passes "
        "every other statement through untouched and fails only for a MERGE; _transform_explode preserves this. The row-level semantics (first applicable clause, true counts, atomicity) are decided by "
        "DuckDB executing the generated statements. Bounded (deciding tier): MERGE clause combinations x data against a Python reference of Snowflake's MERGE.",
        "not_decided_here": "row-level semantics of the generated SQL; atomicity (known finding); helper-table visibility (known finding)",
    },
    "C15": {
        "level": "other",
        "targets": [F("variables.Variables._set"), F("variables.Variables._unset"), F("variables.Variables._is_unset_expression"), F("variables.Variables.update_variables"),
                    F("variables.Variables.inline_variables"), F("cursor.FakeSnowflakeCursor._inline_variables"), F("cursor.FakeSnowflakeCursor._transform"), F("conn.FakeSnowflakeConnection.__init__"),
                    F("conn.FakeSnowflakeConnection.cursor"), F("cursor.FakeSnowflakeCursor.execute")],
        "also": {"fakesnow.cursor.FakeSnowflakeCursor.execute": [r"C07\.undefined_var", r"C08\.order\.inline_first"]},
        "labelled_only": ["fakesnow.conn.FakeSnowflakeConnection.__init__", "fakesnow.cursor.FakeSnowflakeCursor.execute"],
        "bounded": "bounded.C15",
        "trusted_base": ["A-PY re.sub / re.search semantics (the substitution itself is a regular expression evaluated by CPython)", A_SQLGLOT],
        "explanation": "Deductive slice: SET name = value binds exactly that name to the value's text and changes no other variable; UNSET removes exactly that name; every other statement leaves the store unchanged "
        "(Variables.update_variables/_set/_unset); each connection owns a fresh, empty variable store shared by all of its cursors and by no other connection; every statement's text is inlined through that store before "
        "parsing and binding; update_variables is applied to every statement with that store; an undefined reference raises before anything is parsed or executed. "
        "The textual substitution (prefix names, non-references untouched, letter case) is a regular expression: decided by the bounded tier against a reference tokenizer, exhaustively over short texts.",
        "not_decided_here": "regular-expression semantics of the substitution: bounded tier only",
    },
    "C17": {
        "level": "other",
        "targets": [F("server.to_conn"), F("types.describe_as_rowtype.<locals>.as_column_info"), F("types.describe_as_rowtype"), F("cursor.FakeSnowflakeCursor._describe_last_sql")],
        "also": {"fakesnow.types.describe_as_rowtype.<locals>.as_column_info": [r"C06\.rowtype\."], "fakesnow.types.describe_as_rowtype": [r"C06\.rowtype\."], "fakesnow.cursor.FakeSnowflakeCursor._describe_last_sql": [r"C06\.frame\."]},
        "bounded": "bounded.C17",
        "trusted_base": [A_DUCK, "pyarrow compute / IPC and the Snowflake connector's arrow decoder (C++), starlette request handling: outside the verifier"],
        "explanation": "Deductive slice: to_conn refuses a missing token with 401/390103 and an unknown one with 401/390104 without touching the session map, and otherwise returns exactly the session of the token; "
        "the rowtype sent to the client is the proved DuckDB->Snowflake table, one entry per column in order; the describe-after-execute step changes nothing reachable from the cursor or connection. "
        "login_request / query_request are async starlette handlers and arrow.py is pyarrow compute: outside the subset. Bounded (deciding tier): the real connector against the real server vs the "
        "in-process fake over column types x values (every microsecond fraction for the struct encoder in the thorough tier), statement kinds, sessions and tokens.",
        "not_decided_here": "arrow encoding and connector decoding; login/query handlers: bounded tier only",
    },
}
