"""Per-property registry: which functions under contract carry it, bounded module, level, trusted base."""
from .targets import T

PROPERTIES = {
    "C05": {
        "level": "proof",
        "targets": [T["fetchmany"], T["fetchone"], T["fetchall"]],
        "bounded": "bounded.C05",
        "trusted_base": [],
        "explanation": "Deductive: contracts on the real FakeSnowflakeCursor.fetchmany/fetchone/fetchall (source re-read from the repo on every run, "
        "symbolically executed, callee contracts only). fetchmany returns rows pos..pos+k-1 of the result table at full width "
        "(tuple element c == cell c, dict keyed by the column names), advances the position by k and changes nothing else; fetchone/fetchall are "
        "proved against fetchmany's contract. Exactly-once / in-order / empty-for-ever for every call sequence follows by induction on the "
        "sequence from these per-call contracts (position only grows by the number of rows requested, slices are taken at the position). "
        "Bounded (not counted as proof): every fetch sequence up to the stated length on the real DuckDB/pyarrow stack.",
        "not_decided_here": "that DuckDB's arrow result holds the statement's rows in result order (A-DUCK 6) and pyarrow's slice/to_pylist semantics (A-ARROW) are assumed, probed by the bounded tier only",
    },
}
