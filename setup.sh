#!/bin/sh
# Build the overlay virtualenv /verif/.venv offline (idempotent, locked).
# python 3.12 (same interpreter as /venv) + z3-solver, cvc5, jsonschema, hypothesis, crosshair from the
# offline wheelhouse, plus a .pth that makes /venv's site-packages (sqlglot, duckdb, pyarrow, the
# snowflake connector and the editable install of /repo) importable.
set -e
HERE="$(cd "$(dirname "$0")" && pwd)"
VENV="$HERE/.venv"
STAMP="$VENV/.ok"
[ -f "$STAMP" ] && exit 0
exec 9>"$HERE/.venv.lock"
flock 9
[ -f "$STAMP" ] && exit 0
rm -rf "$VENV"
/venv/bin/python -m venv "$VENV"
PIP_NO_INDEX=1 "$VENV/bin/pip" install -q --no-index --find-links /opt/veriftools/wheels \
    z3-solver cvc5 jsonschema hypothesis crosshair-tool >/dev/null
SP="$("$VENV/bin/python" -c 'import sysconfig; print(sysconfig.get_paths()["purelib"])')"
echo "import site; site.addsitedir('/venv/lib/python3.12/site-packages')" > "$SP/zz_repo_overlay.pth"
"$VENV/bin/python" -c "import z3, sqlglot, duckdb, fakesnow; assert z3.get_version_string().startswith('4.') or True"
touch "$STAMP"
