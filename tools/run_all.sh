#!/bin/bash
# run every registered check (tier $1, default quick) one after the other; summary in out/runall_<tier>.tsv
cd /verif
tier=${1:-quick}; shift
props=${*:-C01 C02 C03 C04 C05 C06 C07 C08 C09 C10 C11 C12 C13 C14 C15 C16 C17 C20}
out=out/runall_$tier.tsv; mkdir -p out; : > $out
for p in $props; do
  t0=$(date +%s)
  ./check $p --tier $tier > out/run_${p}_$tier.log 2>&1; rc=$?
  t1=$(date +%s)
  printf "%s\trc=%s\t%ss\t%s\n" $p $rc $((t1-t0)) "$(tail -1 out/run_${p}_$tier.log | cut -c1-200)" >> $out
done
