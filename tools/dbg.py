"""debug one obligation: candidate counter-model from the quantifier-free hypotheses, evaluated on the goal's atoms"""
import sys; sys.path.insert(0,'/verif')
import z3
from contracts.base import build_world
from contracts.targets import T
from pyvc.verify import verify_function
from pyvc.solve import _has_quant
w = build_world('/repo')
name, oid = sys.argv[1], sys.argv[2]
depth = int(sys.argv[3]) if len(sys.argv) > 3 else 3
rel,q,cn = T[name]
r = verify_function(w, rel, q, w.contracts[cn])
print('out_of_reach:', r.out_of_reach)
for o in r.obligations:
    if o.id.startswith(oid):
        s = z3.Solver(); s.set('timeout', 30000)
        for c in o.pc:
            if not _has_quant(c): s.add(c)
        s.add(z3.Not(o.goal))
        res = s.check(); print(o.id, 'QF-hyps:', res, '| #pc', len(o.pc), '#quantified', sum(1 for c in o.pc if _has_quant(c)))
        if res != z3.sat: continue
        m = s.model()
        def show(t, d=0):
            if d > depth: return
            try: v = m.eval(t, model_completion=True)
            except Exception: v = '?'
            print('  '*d + str(t)[:160].replace('\n',' ') + '  ==>  ' + str(v)[:60])
            if z3.is_app(t) and t.decl().kind() in (z3.Z3_OP_AND, z3.Z3_OP_OR, z3.Z3_OP_EQ, z3.Z3_OP_NOT, z3.Z3_OP_ITE, z3.Z3_OP_IMPLIES, z3.Z3_OP_DISTINCT, z3.Z3_OP_LE, z3.Z3_OP_GE, z3.Z3_OP_LT, z3.Z3_OP_GT):
                for c in t.children(): show(c, d+1)
        show(o.goal)
        if len(sys.argv) > 4:
            for c in o.pc:
                if _has_quant(c): print('QUANT HYP:', str(c)[:int(sys.argv[4])].replace('\n',' '))
        break
if len(sys.argv) > 5:
    for o in r.obligations:
        if o.id.startswith(oid):
            for i,c in enumerate(o.pc): print(i, str(z3.simplify(c))[:int(sys.argv[5])].replace('\n',' '))
            print('GOAL', str(z3.simplify(o.goal))[:3000])
            break
