#!/usr/bin/env python3
"""Merge out/backends_*.json (written by check runs) into contracts/solver_hints.json: obligation -> portfolio member that
discharged it when the primary z3 configuration did not.  Only reorders the portfolio; verdicts do not depend on it."""
import glob, json, os
V = os.path.dirname(os.path.dirname(os.path.abspath(__file__)))
p = os.path.join(V, "contracts", "solver_hints.json")
try:
    H = json.load(open(p))
except (OSError, ValueError):
    H = {}
for f in glob.glob(os.path.join(V, "out", "backends_*.json")):
    for fn, obls in json.load(open(f)).items():
        H.setdefault(fn, {}).update(obls)
json.dump(H, open(p, "w"), indent=1, sort_keys=True)
print(sum(len(v) for v in H.values()), "hints")
