"""which joined-path case of an obligation is open?  usage: cases.py <target-key> <obligation-prefix>"""
import sys, time; sys.path.insert(0,'/verif')
import z3, subprocess
from contracts.base import build_world
from contracts.targets import T
from pyvc.verify import verify_function
from pyvc.solve import _case_split, to_smt2
w = build_world('/repo')
rel,q,cn = T[sys.argv[1]]
r = verify_function(w, rel, q, w.contracts[cn])
o = [o for o in r.obligations if o.id.startswith(sys.argv[2]) and (len(sys.argv) <= 5 or sys.argv[5] in o.id)][0]
cases = _case_split(o.pc)
print(len(cases), 'cases; pc', len(o.pc))
for k, pc in enumerate(cases):
    open('/tmp/case.smt2','w').write(to_smt2(pc, o.goal))
    t=time.time(); p = subprocess.run(['z3-new','-T:10','/tmp/case.smt2'],capture_output=True,text=True)
    res = p.stdout.strip().split('\n')[0]
    print(k, res, round(time.time()-t,1))
    if res != 'unsat':
        diff = [i for i,(a,b) in enumerate(zip(pc, o.pc)) if a.get_id()!=b.get_id()]
        for i in diff: print('   case disjunct', i, str(z3.simplify(pc[i]))[:int(sys.argv[3]) if len(sys.argv)>3 else 600].replace('\n',' '))
if len(sys.argv) > 4:
    k = int(sys.argv[4]); open(f'/tmp/hardcase.smt2','w').write(to_smt2(cases[k], o.goal)); print('written case', k)
    goal = z3.simplify(o.goal); print('GOAL', str(goal)[:3000])
