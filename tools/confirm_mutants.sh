#!/bin/bash
# Confirm each pending mutant: demo passes on clean HEAD, fails with patch, baseline tests still pass with patch.
# usage: confirm_mutants.sh <dir-with-mutant-subdirs> <out.tsv> [ids...]
set -u
SRC="$1"; OUT="$2"; shift 2
IDS="${*:-$(ls "$SRC")}"
: > "$OUT"
one() {
  id="$1"
  d="$SRC/$id"
  wt="$(mktemp -d /tmp/confirm.XXXXXX)"
  git -C /repo worktree add -q --detach "$wt" HEAD >/dev/null 2>&1
  cp "$d/demo.py" "$wt/demo.py"
  (cd "$wt" && timeout 300 /venv/bin/python demo.py >/dev/null 2>&1); clean=$?
  if git -C "$wt" apply "$d/patch.diff" 2>/dev/null; then applied=yes; else applied=no; fi
  (cd "$wt" && timeout 300 /venv/bin/python demo.py >/dev/null 2>&1); mut=$?
  tests=$(cd "$wt" && timeout 900 /venv/bin/python -m pytest -q -p no:cacheprovider --timeout=900 -x --deselect tests/test_fakes.py::test_get_result_batches --deselect tests/test_fakes.py::test_get_result_batches_dict 2>&1 | tail -1)
  git -C /repo worktree remove --force "$wt" >/dev/null 2>&1
  rm -rf "$wt"
  printf "%s\tclean_exit=%s\tapplied=%s\tmutant_exit=%s\ttests=%s\n" "$id" "$clean" "$applied" "$mut" "$tests" >> "$OUT"
}
export -f one
export SRC OUT
printf "%s\n" $IDS | xargs -P 6 -I{} bash -c 'one {}'
sort -o "$OUT" "$OUT"
