#!/usr/bin/env python3
"""Regenerate MANIFEST.json from contracts/properties.py (claimed checks) + NOT_APPLICABLE below."""
import json, os, sys
sys.path.insert(0, os.path.dirname(os.path.dirname(os.path.abspath(__file__))))
from contracts.manifest_texts import CHECK_TEXT, NOT_APPLICABLE, NOT_YET  # noqa: E402

ALL = [f"C{n:02d}" for n in range(1, 21)]
checks = []
for pid in ALL:
    if pid not in CHECK_TEXT:
        continue
    t = CHECK_TEXT[pid]
    checks.append({
        "property_id": pid,
        "quick_cmd": f"./check {pid} --tier quick",
        "thorough_cmd": f"./check {pid} --tier thorough",
        "evidence_file": f"/verif/evidence/{pid}.json",
        "replay_cmd_template": f"./check {pid} --replay {{path}}",
        "engine": "pyvc",
        "level_claimed": {"category": t["level"], "text": t["text"], "design_ref": t.get("design_ref", "DESIGN.md 7")},
        "level_note": t["note"],
        "technique": t["technique"],
    })
na = [{"property_id": k, "reason": v} for k, v in NOT_APPLICABLE.items()]
na += [{"property_id": k, "reason": v} for k, v in NOT_YET.items() if k not in CHECK_TEXT]
m = {
    "version": 1,
    "setup_cmd": "./setup.sh",
    "hooks": {
        "guard": "FAKESNOW_VERIF",
        "enable": "no source hooks: contracts are sidecar files under /verif/contracts; the bounded tier drives the real package from /repo",
        "baseline_off_cmd": "cd /repo && /venv/bin/python -m pytest -ra -q -p no:cacheprovider --timeout=900 --continue-on-collection-errors",
        "source_commits": [],
        "add_only": True,
    },
    "engines": [
        {"name": "pyvc", "path": "/verif/pyvc", "serves_properties": [c["property_id"] for c in checks],
         "kind_free_text": "contract-based deductive verifier for a Python subset: re-reads the real function source from /repo, symbolic execution of the AST with callee contracts and loop invariants, obligations discharged out of process by z3 5.1 / z3 4.8.12 / cvc5; sidecar contracts in /verif/contracts; bounded run-time stand-ins in /verif/bounded (labelled bounded)"}
    ],
    "checks": checks,
    "not_applicable": sorted(na, key=lambda x: x["property_id"]),
    "notes": "fix: commits in /repo are listed in known_findings.json under 'fixed'. Exit 3 = checker error (never a VIOLATION line).",
}
json.dump(m, open(os.path.join(os.path.dirname(os.path.dirname(os.path.abspath(__file__))), "MANIFEST.json"), "w"), indent=1)
print("claimed:", [c["property_id"] for c in checks])
