#!/bin/bash
# usage: run_mutant.sh <seeded-dir-name> <prop> [tier]   -- applies the patch to /repo, runs the check, reverts
M="$1"; P="$2"; TIER="${3:-quick}"
cd /verif
if ! git -C /repo diff --quiet || [ -n "$(git -C /repo status --porcelain)" ]; then echo "repo dirty exit=9"; exit 9; fi
if git -C /repo apply "/verif/seeded/$M/patch.diff" 2>/dev/null; then :; else echo "$M: PATCH-DOES-NOT-APPLY exit=8"; exit 8; fi
./check "$P" --tier "$TIER" --evidence-dir /verif/out/mutant_evidence > "out/mutant_$M.$P.log" 2>&1; rc=$?
git -C /repo checkout -- . ; git -C /repo clean -fdq fakesnow tests 2>/dev/null
echo "$M $P exit=$rc $(grep -c '^VIOLATION' out/mutant_$M.$P.log) violation-lines; $(grep '^VIOLATION' out/mutant_$M.$P.log | head -2 | cut -c1-200)"
