#!/usr/bin/env python3
"""Assemble DESIGN.md from tools/design_{head,mid,tail,appendix}.md + evidence/*.json + known_findings.json + seeded/matrix.tsv."""
import glob, json, os
V = os.path.dirname(os.path.dirname(os.path.abspath(__file__)))
rd = lambda p: open(os.path.join(V, p)).read()
rows = ["| id | level | functions | obligations discharged | solver s | bounded evaluations | known findings | backends |", "|---|---|---|---|---|---|---|---|"]
for p in sorted(glob.glob(os.path.join(V, "evidence", "C*.json"))):
    e = json.load(open(p)); c = e["coverage"]
    rows.append(f"| {e['property_id']} | {e['level']} | {len(c['functions_under_contract'])} | {c['discharged']}/{c['obligations']} | {c['solver_time_s']} | {c.get('evaluations', 0)} | {len(c.get('known_findings', []))} | {', '.join(f'{k} {v}' for k, v in sorted(c['backends'].items()))} |")
kf = json.load(open(os.path.join(V, "known_findings.json")))
fixed = "\n".join("* " + f[len("fixed: "):] for f in kf["fixed"])
finds = "\n".join(f"* **{f['property']}** — {f['what']}  \n  (`{f.get('obligation') or f.get('bounded_case')}`)" for f in kf["findings"])
mpath = os.path.join(V, "seeded", "matrix.tsv")
if os.path.exists(mpath):
    m = ["| change | property | what it breaks (short) | result | caught by |", "|---|---|---|---|---|"]
    for line in open(mpath):
        parts = line.rstrip("\n").split("\t")
        if len(parts) >= 5:
            m.append("| " + " | ".join(parts[:5]) + " |")
    matrix = "\n".join(m)
else:
    matrix = "(matrix not generated yet: run tools/mutant_matrix.sh)"
head = rd("tools/design_head.md").replace("@@NFIX@@", str(len(kf["fixed"]))).replace("@@NFIND@@", str(len(kf["findings"])))
out = head + rd("tools/design_mid.md").replace("@@STATUS_TABLE@@", "\n".join(rows)) + \
    rd("tools/design_tail.md").replace("@@FIXED_LIST@@", fixed).replace("@@FINDINGS_LIST@@", finds).replace("@@MUTANT_MATRIX@@", matrix) + rd("tools/design_appendix.md")
open(os.path.join(V, "DESIGN.md"), "w").write(out)
print("DESIGN.md", len(out.splitlines()), "lines")
