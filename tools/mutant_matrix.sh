#!/bin/bash
# run every seeded change against the check of its property (quick tier) and write seeded/matrix.tsv
# usage: mutant_matrix.sh [ids...]      (must not run concurrently with anything that uses /repo's working tree)
cd /verif
ids=${*:-$(ls seeded | grep '^C')}
tmp=out/matrix_new.tsv; : > $tmp
for m in $ids; do
  p=${m%%-*}
  log=out/mutant_$m.$p.log
  rm -f $log; : > $log
  tools/run_mutant.sh $m $p quick > out/matrix_$m.line 2>&1
  rc=$(grep -o 'exit=[0-9]*' out/matrix_$m.line | head -1 | cut -d= -f2)
  nd=$(grep -c '^VIOLATION.*obligation=' $log); nb=$(grep -c '^VIOLATION.*bounded-case=' $log); no=$(grep -c '^OUT-OF-REACH' $log)
  by=""; [ "$nd" -gt 0 ] && by="D"; [ "$nb" -gt 0 ] && by="$by${by:+ }B"; [ "$no" -gt 0 ] && by="$by${by:+ }O"
  first=$(grep '^VIOLATION' $log | head -1 | sed -E 's/.*(obligation=[^ ]+ function=[^ ]+|bounded-case=.*)/\1/' | cut -c1-140 | tr '|' '/')
  what=$(python3 -c "import json,sys; print(json.load(open('/verif/seeded/$m/meta.json'))['summary'][:150].replace('|','/').replace('\n',' '))")
  res=$([ "$rc" = "1" ] && echo caught || echo "MISSED(exit=$rc)")
  printf "%s\t%s\t%s\t%s\t%s\n" "$m" "$p" "$what" "$res" "$by: $first" >> $tmp
done
if [ $# -eq 0 ]; then cp $tmp seeded/matrix.tsv; else
  for m in $ids; do grep -v "^$m	" seeded/matrix.tsv > out/m.tmp 2>/dev/null; mv out/m.tmp seeded/matrix.tsv; done; cat $tmp >> seeded/matrix.tsv; sort -o seeded/matrix.tsv seeded/matrix.tsv; fi
cat $tmp | cut -c1-250
