#!/bin/bash
# usage: selftest_one.sh <file-rel> <sed-expr> <target-filter>  : copy /repo to scratch, mutate, run pyvc.run on it
set -e
D=$(mktemp -d /tmp/selftest.XXXXXX)
mkdir -p $D/repo && cp -r /repo/fakesnow $D/repo/ && cp /repo/pyproject.toml $D/repo/ 2>/dev/null || true
sed -i "$2" "$D/repo/$1"
if diff -q "/repo/$1" "$D/repo/$1" >/dev/null; then echo "MUTATION DID NOT CHANGE FILE"; rm -rf $D; exit 2; fi
cd /verif && .venv/bin/python -m pyvc.run --repo $D/repo $3 2>&1 | cut -c1-180 | grep -v "reason:" | head -${4:-8}
rm -rf $D
