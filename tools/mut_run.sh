#!/bin/bash
# usage: mut_run.sh <seeded-dir-name> <pyvc.run filter...> : scratch copy of /repo + the seeded patch, run pyvc on it
M="$1"; shift
D=$(mktemp -d /tmp/mutrun.XXXXXX)
git -C /repo worktree add -q --detach "$D/repo" HEAD >/dev/null 2>&1
if git -C "$D/repo" apply "/verif/seeded/$M/patch.diff" 2>/dev/null || git -C "$D/repo" apply -3 "/verif/seeded/$M/patch.diff" 2>/dev/null; then
  cd /verif && .venv/bin/python -m pyvc.run --repo "$D/repo" "$@" 2>&1 | cut -c1-240 | grep -v "reason:" | head -${LINES_MAX:-10}
else echo "$M: PATCH-DOES-NOT-APPLY"; fi
git -C /repo worktree remove --force "$D/repo" >/dev/null 2>&1; rm -rf "$D"
