#!/bin/bash
# thorough tier of every check, evidence to a scratch directory (the committed evidence stays the quick tier's)
cd /verif
props=${*:-C01 C02 C03 C04 C05 C06 C07 C08 C09 C10 C11 C12 C13 C14 C15 C16 C17 C20}
out=out/runall_thorough.tsv; : > $out
for p in $props; do
  t0=$(date +%s)
  ./check $p --tier thorough --evidence-dir /verif/out/thorough_evidence > out/run_${p}_thorough.log 2>&1; rc=$?
  t1=$(date +%s)
  printf "%s\trc=%s\t%ss\t%s\n" $p $rc $((t1-t0)) "$(tail -1 out/run_${p}_thorough.log | cut -c1-200)" >> $out
done
